"""C16: both clients treat the feed as a byte stream.  Step D: MC_Feed (all segmentations with at most MaxSegs
segments and every assignment of short/long gaps, canonical interleaving) checks Level A on the model of the line
loop.  Step C: schedules of the bounded model are executed by a scripted TCP server against the real `1090` and
the real `radar` (in a pty, observed through the guarded hook); malformed-line and disconnect/reconnect runs are
added; one `feed` event per run is judged by TLC against Trace_Feed."""
import concurrent.futures as cf
import json
import os
import random
import re
import time

import apps
import core
import gen
import track_checks

RX = ["--lat", "52.0", "--long", "4.0"]


def valid_lines(rng, n):
    """distinct decodable frames"""
    out = []
    seen = set()
    while len(out) < n:
        addr = rng.randrange(1, 1 << 24)
        kind = rng.randrange(4)
        if kind == 3:
            # a frame of any format the decoder knows (the military format, which renders as nothing, included)
            df = rng.choice(sorted(gen.SUPPORTED))
            b = gen.rnd_frame(rng, df)
            if df == 19 or rng.random() < 0.3:
                b = gen.rnd_frame(rng, 19)
        elif kind == 0:
            b = track_checks.f_ident(rng, addr, "AB" + str(rng.randrange(100, 999)))
        elif kind == 1:
            b = track_checks.f_pos(rng, addr, 52.0 + rng.uniform(-1, 1), 4.0 + rng.uniform(-1, 1), rng.randrange(2), 10000)
        else:
            b = track_checks.f_vel(rng, addr, (0, 100), (1, 200), (0, 5))
        h = bytes(b).hex()
        if h not in seen:
            seen.add(h)
            out.append(h)
    return out


MALFORMED = [b"\n", b";\n", b"*;\n", b"*\n", b"x\n", b"*zz;\n", b"*8d4;\n", b"*\xc3\xa9;\n", b"\xc3\xa9\n", b"*00000000000000;\n",
             b"*0000000000000000000000000000;\n", b"*08000000000000;\n", b"*8d;\n", b"8da2c1bd587ba2adb31799cb802b\n", b"**;;\n", b"\xff\xfe\n",
             b"*8DA2C1BD587BA2ADB31799CB80;\n",
             # valid UTF-8 with a multi-byte character at the very end, before the `;`, as the whole body
             "*8D4840D6202CC371C32CE05760\u00e9\n".encode(), "*\u20ac\n".encode(), "*8d4840\u00e9;\n".encode(), "\u00e9;\n".encode(),
             "*;\u00e9\n".encode(), "\U0001F6E9\n".encode()]


def concretise(rng, kinds, sched):
    """kinds: string over V S E; sched: [(nbytes, gap)...] in abstract bytes (V = 5 bytes) -> real lines and segments.
    Cut points inside an abstract V line are mapped proportionally into the real 31-byte line."""
    vs = valid_lines(rng, kinds.count("V") + kinds.count("U"))
    lines, abs_len = [], []
    vi = 0
    for c in kinds:
        if c == "V":
            lines.append(b"*" + vs[vi].encode() + b";\n"); vi += 1; abs_len.append(5)
        elif c == "U":
            # a frame text with a stray byte (the first byte of a multi-byte character, alone) in front of the `;`
            lines.append(b"*" + vs[vi].encode() + rng.choice((b"\xc3", b"\xe2", b"\xff")) + b";\n"); vi += 1; abs_len.append(-5)
        elif c == "S":
            lines.append(b";\n"); abs_len.append(2)
        else:
            lines.append(b"\n"); abs_len.append(1)
    stream = b"".join(lines)
    # map an abstract offset to a real one
    def real_off(a):
        off = 0
        for ln, al in zip(lines, abs_len):
            if a >= abs(al):
                a -= abs(al)
                off += len(ln)
            else:
                if al == -5:
                    # abstract bytes of a U line: `*`, two halves of the hex, the stray byte, `;` newline
                    inner = {0: 0, 1: 1, 2: rng.randrange(2, len(ln) // 2), 3: len(ln) - 3, 4: len(ln) - 2}[a]
                    return off + inner
                if al == 5:
                    # abstract positions 1..4 inside a frame line: after '*', inside the hex (two places), before ';' newline
                    inner = {0: 0, 1: 1, 2: rng.randrange(2, len(ln) // 2), 3: rng.randrange(len(ln) // 2, len(ln) - 2), 4: len(ln) - 1}[a]
                    return off + inner
                return off + a
        return off
    segs = []
    apos = 0
    rpos = 0
    for k, g in sched:
        apos += k
        r = real_off(apos)
        segs.append([list(stream[rpos:r]), g])
        rpos = r
    if rpos < len(stream):
        segs[-1][0] += list(stream[rpos:])
    return segs, line_info(lines)


HEXPAIRS = re.compile(r"(?:[0-9a-f]{2})+")


def line_info(raw_lines):
    sent = []
    for l in raw_lines:
        body = l[1:-2] if l.startswith(b"*") and l.endswith(b";\n") and len(l) >= 3 else b""
        ok = len(body) > 0 and len(body) % 2 == 0 and all(chr(c) in "0123456789abcdefABCDEF" for c in body)
        cb = l[1:-2].decode("latin-1").lower() if len(l) >= 3 else ""
        sent.append({"text": body.decode("latin-1").lower() if ok else "", "wf": 1 if ok else 0, "body": cb if HEXPAIRS.fullmatch(cb) else ""})
    return sent


def run_1090(bindir, segs, sent, tag, then="hold"):
    r = apps.run_1090(bindir, [{"segments": segs, "then": then, "linger": 0.2}])
    return {"ev": "feed", "client": "1090", "tag": tag, "mode": "hold" if then == "hold" else "close", "sent": sent, "printed": [p.lower() for p in r["printed"]],
            "blocks": r["blocks"],
            "alive": r["alive"], "exit": r["exit"], "panic": r["panic"], "keys_before": [], "keys_after": [], "reconnected": 0}


def run_radar(bindir, script, sent, tag, mode, extra_args=()):
    if tag == "malformed" and sum(len(str(x)) for x in sent) % 3 == 0:
        extra_args = list(extra_args) + ["--limit-parsing"]          # option combination: only DF17 is decoded, every line is still taken
    srv = apps.FeedServer(script)
    srv.start()
    rd = apps.Radar(bindir, srv.port, RX + list(extra_args))
    try:
        rd.wait_frames(1, 6)
        t0 = time.time()
        while not srv.done_sending.is_set() and time.time() - t0 < 30:
            rd.pump(0.05)
        t0 = time.time()
        # (radar takes one line per loop iteration: a bulk feed needs time in proportion)
        while time.time() - t0 < 0.6 + (len(sent) / 40.0 if tag == "bulk" else 0):
            rd.pump(0.05)
        keys_before, keys_after, reconnected = [], [], 0
        if mode == "close":
            st = rd.wait_exit(4)
            alive = 0 if st is not None else 1
        elif mode == "retry":
            t0 = time.time()
            while time.time() - t0 < 1.0:
                rd.pump(0.05)
            alive = 1 if rd.poll() is None else 0
        else:
            alive = 1 if rd.poll() is None else 0
        ev = rd.events()
        if mode == "retry":
            idx = [i for i, e in enumerate(ev) if e.get("ev") == "disconnect"]
            if idx:
                keys_before = ev[idx[0]].get("keys", [])
            conn = [i for i, e in enumerate(ev) if e.get("ev") == "connected"]
            reconnected = 1 if len(conn) >= 2 else 0
            last = [e for e in ev if "keys" in e]
            keys_after = last[-1]["keys"] if last else []
        printed = [e["hex"].lower() for e in ev if e.get("ev") == "line"]
        out = bytes(rd.out)
        panic = 1 if b"panicked" in out else 0
        status = rd.poll()
        life = ([{"ev": "session_start", "tag": f"feed-{mode}-{tag}", "retry": 1 if "--retry-tcp" in extra_args else 0, "quit_sent": 0, "filter_time": 120}]
                + [e for e in ev if e.get("ev") != "unparsable"] + [apps.session_end_event(rd, tag, 0, status, alive)])
        return {"ev": "feed", "client": "radar", "tag": tag, "mode": mode, "sent": sent, "printed": printed, "alive": alive,
                "exit": status if status is not None else -1, "panic": panic, "keys_before": keys_before, "keys_after": keys_after,
                "reconnected": reconnected, "_life": life}
    finally:
        srv.stop()
        rd.cleanup()


def model_schedules(tier, rep, keep="1", guard="1", textbuf="0"):
    feeds = ["VSV", "VEVV", "VUV"] if tier == "quick" else ["VSV", "VEVV", "VV", "SVE", "VVSV", "VUV", "UV", "VUE"]
    out = []
    for feed in feeds:
        res = core.run_mc("MC_Feed", workers=4, timeout=1800, cache=False,
                          env_extra={"FEED": feed, "KEEP": keep, "GUARD": guard, "TEXTBUF": textbuf, "MAXSEGS": "4" if len(feed) <= 3 else "3"})
        rep.add_model(res, f"MC_Feed({feed})")
        if not res["ok"]:
            rep.mismatch("C16", "feed|model|" + feed, "level_a", {"kind": "model", "violated": res["violated"], "tail": res["output_tail"][-600:]})
        for t in res["tuples"]:
            m = re.match(r'<<"REPLAY", <<(.*)>>>>$', t)
            if m:
                sched = [(int(a), b) for a, b in re.findall(r'<<(\d+), "(\w+)">>', m.group(1))]
                out.append((feed, sched))
    return out


def model_feed_end(tier, rep):
    """Step D for a server that goes away (FeedEnd): at every point where the client waits the server may close; whatever
    the segmentation, a client that has seen the end of the stream has processed every complete well-formed line that was
    sent and nothing else, the unfinished rest is still in its buffer, the end is noticed (liveness under fairness), 1090
    stays (it polls the closed stream), radar leaves the loop.  The original loops (buffer cleared on a timeout) must fail."""
    runs = [("VSV", "1090", "4"), ("VUE", "radar", "3")] if tier == "quick" else \
           [(f, c, "4" if len(f) <= 3 else "3") for f in ("VSV", "VEVV", "VUV", "UV", "VUE") for c in ("1090", "radar")]
    for feed, client, segs in runs:
        res = core.run_mc("MC_FeedEnd", workers=4, timeout=1800, cache=False,
                          env_extra={"FEED": feed, "KEEP": "1", "GUARD": "1", "TEXTBUF": "0", "MAXSEGS": segs, "CLIENT": client})
        rep.add_model(res, f"MC_FeedEnd({feed},{client})")
        if not res["ok"]:
            rep.mismatch("C16", f"feed|model-end|{feed}|{client}", "level_a", {"kind": "model", "violated": res["violated"], "tail": res["output_tail"][-600:]})
    r0 = core.run_mc("MC_FeedEnd", workers=4, timeout=900, cache=False,
                     env_extra={"FEED": "VSV", "KEEP": "0", "GUARD": "1", "TEXTBUF": "0", "MAXSEGS": "3", "CLIENT": "radar"})
    rep.extra["clear_on_timeout_model_violates_ELevelA"] = (not r0["ok"]) and "ELevelA" in r0["violated"]
    if r0["ok"]:
        raise core.ToolError("anti-vacuity: FeedEnd with the buffer cleared on every timeout no longer violates ELevelA")


def tlaps_nocrash(rep):
    """unbounded counterpart of MC_Feed's NoCrash: the TLA+ proof system checks Feed_proofs.tla (NoCrashAlways)"""
    import subprocess
    r = subprocess.run(["timeout", "900", "tlapm", "--threads", "4", "--cleanfp", "Feed_proofs.tla"], cwd=core.SPEC,
                       stdout=subprocess.PIPE, stderr=subprocess.STDOUT, text=True)
    m = re.search(r"All (\d+) obligations proved", r.stdout)
    subprocess.run(["rm", "-rf", os.path.join(core.SPEC, ".tlacache")])
    if not m:
        raise core.ToolError("tlapm did not prove Feed_proofs.tla: " + r.stdout[-600:])
    rep.extra["tlaps"] = {"module": "Feed_proofs", "theorem": "NoCrashAlways (GuardShort => Spec => []NoCrash, any stream, any schedule)",
                          "obligations": int(m.group(1)), "proved": int(m.group(1))}


def run(prop, tier, seed, rep):
    rng = random.Random(seed * 1000003 + 16)
    if tier == "thorough":
        tlaps_nocrash(rep)
    bindir = core.build_apps()
    scheds = model_schedules(tier, rep)
    model_feed_end(tier, rep)
    # the line buffer as text (the code before fix 4fbaf9d): the model must lose the property on a line with a stray byte
    r1 = core.run_mc("MC_Feed", workers=4, timeout=900, cache=False, env_extra={"FEED": "VUV", "KEEP": "1", "GUARD": "1", "TEXTBUF": "1", "MAXSEGS": "4"})
    rep.extra["text_line_buffer_model_violates_LevelA"] = (not r1["ok"]) and "LevelA" in r1["violated"]
    if r1["ok"]:
        raise core.ToolError("anti-vacuity: the model with a text line buffer (read_line) no longer violates LevelA on a feed with a stray byte")
    jobs = []
    # which schedules are replayed: first a cover of the kinds of cut the model distinguishes - the kind of line a segment
    # ends in, where in the line, the gap that follows, and every combination of cuts inside one line - then a random sample
    KL = {"V": 5, "U": 5, "S": 2, "E": 1}

    def classes(feed, sched):
        starts, pos = [], 0
        for c in feed:
            starts.append((pos, c))
            pos += KL[c]
        out, cum, inline = set(), 0, {}
        for k, g in sched[:-1] if sum(k for k, _ in sched) == pos else sched:
            cum += k
            li = max(i for i, (st, _) in enumerate(starts) if st <= cum - 1) if cum > 0 else 0
            st, c = starts[li]
            off = cum - st                     # bytes of line li sent so far (== its length: the cut is at the line's end)
            out.add(("cut", c, off if off < KL[c] else "end", g))
            if off < KL[c]:
                inline.setdefault(li, []).append((off, g))
        for li, cuts in inline.items():
            if len(cuts) >= 2:
                out.add(("cuts", starts[li][1], tuple(cuts)))
        return out
    cls = [classes(f_, s_) for f_, s_ in scheds]
    freq = {}
    for c in cls:
        for x in c:
            freq[x] = freq.get(x, 0) + 1
    covered, pick_i = set(), []
    budget = 90 if tier == "quick" else 600
    while len(pick_i) < budget:
        best, gain = None, 0.0
        for i, c in enumerate(cls):
            g_ = sum(1.0 / freq[x] for x in c if x not in covered)
            if g_ > gain:
                best, gain = i, g_
        if best is None:
            break
        pick_i.append(best)
        covered |= cls[best]
    rep.extra["model_cut_classes"] = len(freq)
    rep.extra["model_cut_classes_replayed"] = len(covered)
    pick = [scheds[i] for i in pick_i]
    rest = [x for i, x in enumerate(scheds) if i not in set(pick_i)]
    pick += rng.sample(rest, min(len(rest), 15 if tier == "quick" else 900))
    # ... and the schedules that tell a byte buffer from a text buffer: a pause right before and right after the stray byte
    def isolates_stray(feed, sched):
        if "U" not in feed:
            return False
        at = sum({"V": 5, "U": 5, "S": 2, "E": 1}[c] for c in feed[:feed.index("U")]) + 4      # the stray byte is the 4th of its line
        cum, ends = 0, {}
        for k, g in sched:
            cum += k
            ends[cum] = g
        return ends.get(at - 1) == "long" and ends.get(at) == "long"
    crit = [x for x in scheds if isolates_stray(*x)]
    rng.shuffle(crit)
    pick += [x for x in crit[:6 if tier == "quick" else 200] if x not in pick]
    rep.extra["schedules_isolating_a_stray_byte_replayed"] = sum(1 for x in pick if isolates_stray(*x))
    for i, (feed, sched) in enumerate(pick):
        segs, sent = concretise(rng, feed, sched)
        jobs.append(("1090", segs, sent, f"model-{feed}", "hold"))
        if i % 5 == 0:
            jobs.append(("radar", segs, sent, f"model-{feed}", "hold"))
    # malformed lines between valid ones, random segmentation
    for i in range(10 if tier == "quick" else 300):
        vs = valid_lines(rng, 3)
        raw = []
        for v in vs:
            raw.append(b"*" + v.encode() + b";\n")
            raw.append(rng.choice(MALFORMED))
        stream = b"".join(raw)
        cuts = sorted(rng.sample(range(1, len(stream)), rng.randrange(0, 4)))
        segs = [[list(stream[a:b]), rng.choice(("short", "long", "near"))] for a, b in zip([0] + cuts, cuts + [len(stream)])]
        sent = line_info(raw)
        jobs.append((rng.choice(("1090", "radar")), segs, sent, "malformed", "hold"))
    # a line whose first part is text and whose rest is not UTF-8 (or a multi-byte character cut in two), split exactly
    # there by a long gap, followed by valid lines: the stale fragment must not swallow the next line
    for i in range(6 if tier == "quick" else 120):
        vs = valid_lines(rng, 3)
        l1, l2, l3 = (b"*" + v.encode() + b";\n" for v in vs)
        # (a head that is a whole frame text: without its stray bytes the line would be a frame - it is not one)
        head = rng.choice((b"*8D4840", b"*", b"*8d4840d6202cc371c32ce057", b"x", b"*" + valid_lines(rng, 1)[0].encode(), b"*" + valid_lines(rng, 1)[0].encode()))
        tail = rng.choice((b"\xff\xfe20;\n", b"\xfe\n", b"\xc3", b"\xa9;\n", b"\xe2\x82"))
        rest = b";\n" if not tail.endswith(b"\n") else b""
        segs = [[list(l1 + head), "long"], [list(tail), rng.choice(("long", "short"))], [list(rest + l2 + l3), "short"]]
        raw = [l1, head + tail + rest, l2, l3]
        jobs.append((rng.choice(("1090", "radar")), segs, line_info(raw), "split-invalid", "hold"))
    # sizes and counts: hundreds of lines in one segment, a line of tens of kilobytes between valid ones, a long run of
    # empty lines
    for i in range(2 if tier == "quick" else 20):
        n = rng.choice((120, 300)) if i % 2 == 0 else 60
        vs = valid_lines(rng, n)
        raw = [b"*" + v.encode() + b";\n" for v in vs]
        raw.insert(n // 2, b"*" + bytes(rng.choice(b"0123456789abcdefXYZ") for _ in range(rng.choice((5000, 40001)))) + b";\n")
        raw.insert(n // 3, b"\n" * 200)
        stream = b"".join(raw)
        cut = rng.randrange(1, len(stream))
        segs = [[list(stream[:cut]), "short"], [list(stream[cut:]), "short"]]
        sent = line_info([x + b"\n" for x in stream.split(b"\n")[:-1]])
        jobs.append(("1090" if i % 2 == 0 else "radar", segs, sent, "bulk", "hold"))
    # an over-long line (around the sizes buffers tend to have) that pauses in the middle, and whose rest would be a line
    # of its own if the beginning were forgotten: it is one (malformed) line all the same
    for i in range(6 if tier == "quick" else 120):
        vs = valid_lines(rng, 3)
        l1, l2 = (b"*" + v.encode() + b";\n" for v in vs[:2])
        k = rng.choice((1000, 1023, 1024, 1025, 1100, 2048, 4095, 4096, 4097, 8191, 8192, 8193, 16384, 70000))
        filler = bytes(rng.choice(b"0123456789abcdefzZ*;" if i % 3 else b"0123456789abcdef") for _ in range(k))
        tail = rng.choice((b"z", b"*", b"0", b"**")) + vs[2].encode() + b";\n"
        long_line = b"*" + filler + tail
        segs = [[list(l1 + b"*" + filler), "long"], [list(tail + l2), rng.choice(("short", "long"))]]
        if rng.random() < 0.3:
            # ... or the pause comes a little earlier or later than where the rest begins
            cut = len(l1) + 1 + k + rng.choice((-3, -1, 1, 2))
            stream = l1 + long_line + l2
            segs = [[list(stream[:cut]), "long"], [list(stream[cut:]), "short"]]
        raw = [l1] + [x + b"\n" for x in long_line.split(b"\n")[:-1]] + [l2]
        jobs.append(("1090" if i % 2 == 0 else "radar", segs, line_info(raw), "long-split", "hold"))
    # server disconnects: radar exits cleanly, or reconnects with --retry-tcp and keeps its aircraft
    for i in range(3 if tier == "quick" else 40):
        vs = valid_lines(rng, 4)
        raw = [b"*" + v.encode() + b";\n" for v in vs]
        jobs.append(("radar-close", [[list(b"".join(raw[:2])), "short"]], line_info(raw[:2]), "disconnect", "close"))
        jobs.append(("radar-retry", [[list(b"".join(raw[:2])), "short"]], line_info(raw), "reconnect", "retry", [[list(b"".join(raw[2:])), "short"]]))
        # the first connection ends in the middle of a line: the lines of the second connection are complete lines of the
        # feed all the same (the beginning that was never finished is not)
        frag = rng.choice((b"*", b"*8D4840", raw[3][:rng.randrange(2, len(raw[3]) - 1)]))
        jobs.append(("radar-retry", [[list(b"".join(raw[:2]) + frag), rng.choice(("short", "long"))]], line_info(raw), "reconnect-partial", "retry",
                     [[list(b"".join(raw[2:])), "short"]]))
        # ... or is aborted there (connection reset): the client's read fails instead of reporting the end of the stream
        jobs.append(("radar-retry-reset", [[list(b"".join(raw[:2]) + frag), "long"]], line_info(raw), "reconnect-reset", "retry",
                     [[list(b"".join(raw[2:])), "short"]]))
        if i % 2 == 0:
            jobs.append(("radar-retry-reset", [[list(b"".join(raw[:2])), "short"]], line_info(raw), "reconnect-reset", "retry", [[list(b"".join(raw[2:])), "short"]]))
        # 1090 and a server that goes away, after a complete line or in the middle of one, by closing or by aborting the
        # connection: every complete line that was sent is taken (what 1090 does afterwards - it keeps polling the closed
        # stream - is not the property's business and not judged)
        jobs.append(("1090-close" if i % 2 == 0 else "1090-reset", [[list(b"".join(raw[:3]) + (frag if i % 3 else b"")), rng.choice(("short", "long"))]],
                     line_info(raw[:3]), "disconnect-1090", "close"))

    def do(job):
        kind = job[0]
        if kind == "1090":
            return run_1090(bindir, job[1], job[2], job[3])
        if kind in ("1090-close", "1090-reset"):
            return run_1090(bindir, job[1], job[2], job[3], then=kind[5:])
        if kind == "radar":
            return run_radar(bindir, [{"segments": job[1], "then": "hold"}], job[2], job[3], "hold")
        if kind == "radar-close":
            return run_radar(bindir, [{"segments": job[1], "then": "close"}], job[2], job[3], "close")
        return run_radar(bindir, [{"segments": job[1], "then": "reset" if kind == "radar-retry-reset" else "close", "linger": 0.3 if kind == "radar-retry-reset" else 0.2},
                                  {"segments": job[5], "then": "hold"}],
                         job[2], job[3], "retry", extra_args=["--retry-tcp"])
    with cf.ThreadPoolExecutor(max_workers=12) as ex:
        events = list(ex.map(do, jobs))
    # the radar runs once more, event by event: each run's hook trace must be a behaviour of RadarSession (Trace_Session):
    # connected before any line, a disconnect followed by exit (or by a reconnect that keeps the aircraft with --retry-tcp)
    import ui_checks
    ui_checks.lifecycle_model(prop, tier, rep)
    life = [x for e in events for x in e.pop("_life", [])]
    # sessions around server closes with an operator at the keyboard (keys pressed during an outage must not end a client
    # that was told to keep reconnecting)
    lj = [j for j in ui_checks.life_jobs(rng, tier) if j["retry"]]
    with cf.ThreadPoolExecutor(max_workers=6) as ex:
        for r in ex.map(lambda j: ui_checks.life_session(bindir, random.Random(j["seed"]), j["tag"], j["retry"], j["nconn"], j["last"], j["quit_key"]), lj):
            life += r
    if life:
        ui_checks.judge_sessions(prop, rep, life, prop + "-session")
    # composition (beyond the listed properties): what 1090 prints after a line is the library's rendering of that frame.
    # The recorder renders the same bytes; TLC compares (drift only).
    hx = core.build_hx("std")
    want = sorted({b_["hex"] for e in events if e["client"] == "1090" for b_ in e.get("blocks", [])
                   if len(b_["hex"]) in (14, 28) and all(c in "0123456789abcdef" for c in b_["hex"])})
    ref = {}
    if want:
        for h, d in zip(want, core.run_hx(hx, ["decode", "--text"], [{"bytes": list(bytes.fromhex(h))} for h in want])):
            ref[h] = d.get("rawtext", []) if any(c != "0" for c in h) else []     # all-zero lines are skipped by the clients
    for e in events:
        e["taken"] = [x for x in e["printed"] if HEXPAIRS.fullmatch(x)]
        # what the clients' framing makes of each complete line of the feed: the line without its first character and its
        # last one before the newline (neither client looks at those two)
        for x in e["sent"]:
            x.setdefault("body", x["text"])
        blocks = e.pop("blocks", [])
        e["texts"] = [{"hex": b_["hex"], "got": b_["text"], "want": ref[b_["hex"]]} for b_ in blocks if b_["hex"] in ref]
    verdicts, st, tr = core.validate_events("Trace_Feed", events, prop, shards=1)
    rep.extra["client_renderings_compared"] = sum(len(e["texts"]) for e in events)
    rep.extra["client_rendering_drift"] = sum(1 for d in core.LAST_INFOS if d["what"] == "client_text")
    rep.add_trace_stats(st, tr, len(events))
    summary = {}
    for v in verdicts:
        ev = events[v["index"]]
        job = jobs[v["index"]]
        for owner, field in v["pairs"]:
            k = f"{owner}|{v['cls']}|{field}"
            summary.setdefault(k, [0, ev["printed"], [x["text"] for x in ev["sent"]]])[0] += 1
            rep.mismatch(owner, v["cls"], field, {"kind": "feed", "client": ev["client"], "mode": ev["mode"], "segments": job[1],
                                                  "second_connection": job[5] if len(job) > 5 else [], "sent": ev["sent"],
                                                  "printed": ev["printed"], "alive": ev["alive"], "exit": ev["exit"], "panic": ev["panic"]})
    json.dump(summary, open(os.path.join(core.BUILD, f"last_{prop}_verdicts.json"), "w"), indent=1, sort_keys=True)
    if tier == "thorough":
        idx = next(i for i, e in enumerate(events) if len([x for x in e["sent"] if x["wf"] == 1]) >= 2 and e["alive"] == 1)
        def drop(e):
            wf = [x["text"] for x in e["sent"] if x["wf"] == 1]
            e["printed"] = [p for p in e["printed"] if p != wf[0]]
            return e
        core.anti_vacuity(rep, "Trace_Feed", events[:idx + 5], [(idx, drop, "C16")], name="C16-selftest")
    by = {}
    for e in events:
        k = f"{e['client']}|{e['tag']}"
        by[k] = by.get(k, 0) + 1
    rep.extra.update({"runs": len(events), "runs_by_client_and_kind": by, "model_schedules_available": len(scheds),
                      "runs_with_long_gap_inside_a_line": sum(1 for j in jobs if any(g == "long" and s and s[-1] != 10 for s, g in j[1][:-1]))})
    rep.samples = [{k: events[0][k] for k in ("client", "tag", "printed", "alive")}, {"segments": jobs[0][1]}]
    rep.assumptions += ["short gaps are back-to-back sends, long gaps 200 ms (four read timeouts): gaps near the 50 ms timeout are a race and are not explored",
                        "loopback TCP only; radar runs in a pty and is observed through the guarded hook (line events)"]
