#!/usr/bin/env python3
"""Seeded changes (produced by independent sub-agents in scratch worktrees):
   seeded.py verify <name> <worktree>   confirm in the scratch worktree: suite passes with the change, demo fails with / passes without
   seeded.py detect <name> <check>...   apply seeded/<name>/patch.diff to /repo, run the quick checks, undo
"""
import json, os, subprocess, sys, shutil, glob, time
V = os.path.dirname(os.path.dirname(os.path.abspath(__file__)))

def sh(cmd, cwd=None, timeout=3600):
    r = subprocess.run(cmd, cwd=cwd, shell=True, stdout=subprocess.PIPE, stderr=subprocess.STDOUT, text=True, timeout=timeout)
    return r.returncode, r.stdout

def verify_py(name, wt):
    """demonstration is a Python script driving the built binaries (client programs)"""
    d = os.path.join(V, "seeded", name)
    os.makedirs(d, exist_ok=True)
    shutil.copy(os.path.join(wt, "mutation.patch"), os.path.join(d, "patch.diff"))
    shutil.copy(os.path.join(wt, "demo_mut.py"), os.path.join(d, "demo_mut.py"))
    res = {"worktree": wt, "demo": "demo_mut.py"}
    rc, out = sh("git apply --check -R mutation.patch", cwd=wt)
    if rc != 0:
        sh("git apply mutation.patch", cwd=wt)
    rc, out = sh("cargo test --workspace --offline 2>&1 | grep -E '^test result|FAILED|^error' ", cwd=wt)
    res["suite_with_change"] = out.strip().splitlines()
    res["suite_passes_with_change"] = (not any('FAILED' in l or l.startswith('error') for l in out.splitlines())) and out.count('test result: ok') >= 8
    sh("cargo build -p rsadsb_apps --offline", cwd=wt)
    rc, out = sh("python3 demo_mut.py 2>&1 | tail -3", cwd=wt, timeout=600)
    rc2, _ = sh("python3 demo_mut.py >/dev/null 2>&1", cwd=wt, timeout=600)
    res["demo_with_change"] = out.strip().splitlines()
    res["demo_fails_with_change"] = rc2 != 0
    sh("git apply -R mutation.patch", cwd=wt)
    sh("cargo build -p rsadsb_apps --offline", cwd=wt)
    rc, out = sh("python3 demo_mut.py 2>&1 | tail -3", cwd=wt, timeout=600)
    rc2, _ = sh("python3 demo_mut.py >/dev/null 2>&1", cwd=wt, timeout=600)
    res["demo_without_change"] = out.strip().splitlines()
    res["demo_passes_without_change"] = rc2 == 0
    sh("git apply mutation.patch", cwd=wt)
    json.dump(res, open(os.path.join(d, "verify.json"), "w"), indent=1)
    print(name, res["suite_passes_with_change"], res["demo_fails_with_change"], res["demo_passes_without_change"])


def verify(name, wt):
    if os.path.exists(os.path.join(wt, "demo_mut.py")):
        return verify_py(name, wt)
    d = os.path.join(V, "seeded", name)
    os.makedirs(d, exist_ok=True)
    shutil.copy(os.path.join(wt, "mutation.patch"), os.path.join(d, "patch.diff"))
    demos = [p for p in glob.glob(os.path.join(wt, "*", "tests", "demo_mut.rs"))]
    assert len(demos) == 1, demos
    demo = demos[0]
    crate = os.path.basename(os.path.dirname(os.path.dirname(demo)))
    pkg = {"libadsb_deku": "adsb_deku", "rsadsb_common": "rsadsb_common"}[crate]
    shutil.copy(demo, os.path.join(d, "demo_mut.rs"))
    res = {"worktree": wt, "demo_crate": crate}
    # state: mutation applied + demo present
    rc, out = sh(f"git apply --check -R mutation.patch", cwd=wt)
    res["mutation_applied_at_start"] = rc == 0
    if rc != 0:
        sh("git apply mutation.patch", cwd=wt)
    aside = demo + ".aside"
    os.rename(demo, aside)
    rc, out = sh("cargo test --workspace --offline 2>&1 | grep -E '^test result|FAILED|error' ", cwd=wt)
    res["suite_with_change"] = out.strip().splitlines()
    res["suite_passes_with_change"] = (not any('FAILED' in l or l.startswith('error') for l in out.splitlines())) and out.count('test result: ok') >= 8
    os.rename(aside, demo)
    extra = os.environ.get("DEMO_ARGS", "")
    res["demo_cargo_args"] = extra
    rc, out = sh(f"cargo test --offline -p {pkg} --test demo_mut {extra} 2>&1 | grep -E '^test result|error' | head -5", cwd=wt)
    res["demo_with_change"] = out.strip().splitlines()
    res["demo_fails_with_change"] = "FAILED" in out or "failed" in out
    sh("git apply -R mutation.patch", cwd=wt)
    rc, out = sh(f"cargo test --offline -p {pkg} --test demo_mut {extra} 2>&1 | grep -E '^test result|error' | head -5", cwd=wt)
    res["demo_without_change"] = out.strip().splitlines()
    res["demo_passes_without_change"] = "test result: ok" in out and "FAILED" not in out
    sh("git apply mutation.patch", cwd=wt)
    json.dump(res, open(os.path.join(d, "verify.json"), "w"), indent=1)
    print(name, res["suite_passes_with_change"], res["demo_fails_with_change"], res["demo_passes_without_change"])

def detect(name, checks):
    d = os.path.join(V, "seeded", name)
    rc, out = sh("git -C /repo status --porcelain")
    if out.strip():
        print("refusing: /repo has uncommitted changes"); return 2
    rc, out = sh(f"git -C /repo apply {d}/patch.diff")
    if rc != 0:
        print("patch does not apply:", out); return 2
    results = {}
    # the evidence files belong to the unchanged tree: what the checks write while the change is applied is put back
    saved = {}
    for c in checks:
        ep = os.path.join(V, "evidence", c + ".json")
        saved[ep] = open(ep, "rb").read() if os.path.exists(ep) else None
    try:
        for c in checks:
            t = time.time()
            rc, out = sh(f"./check {c} --tier quick", cwd=V)
            viol = [l for l in out.splitlines() if l.startswith("VIOLATION")]
            classes = []
            for l in viol[:50]:
                p = l.split("replay=")[1].split()[0]
                try:
                    b = json.load(open(p)); classes.append(f"{b['class']}|{b['field']}")
                except Exception:
                    pass
            results[c] = {"exit": rc, "violations": len(viol), "classes": classes[:12], "wall_s": round(time.time() - t, 1)}
            print(name, c, "exit", rc, "violations", len(viol), classes[:4])
    finally:
        sh("git -C /repo checkout -- .")
        for ep, data in saved.items():
            if data is not None:
                open(ep, "wb").write(data)
    p = os.path.join(d, "detect.json")
    old = json.load(open(p)) if os.path.exists(p) else {}
    old.update(results)
    json.dump(old, open(p, "w"), indent=1)
    return 0

if __name__ == "__main__":
    if sys.argv[1] == "verify":
        verify(sys.argv[2], sys.argv[3])
    else:
        sys.exit(detect(sys.argv[2], sys.argv[3:]))
