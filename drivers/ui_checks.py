"""C17 (and the view/data part of C18): operator sessions of radar in a pty.  Step D: MC_RadarUI (handler tables,
selection clamp, bursts between draws, arrivals/expiry) checks NoPanic / SelectionShown / ViewOnly.  Step C:
behaviours of the bounded model and seeded random sessions (keys, SGR mouse, resizes down to 1x1, bursts, with
and without traffic, touchscreen on/off) are driven through the real program; the hook's events plus how the
session ended are judged by Trace_UI.  A grid of malformed command-line values is run directly."""
import concurrent.futures as cf
import json
import os
import random
import re
import subprocess
import time

import apps
import core
import gen
import track_checks

RXF = (52.0, 4.0)


def aircraft_lines(rng, with_position):
    addr = rng.randrange(1, 1 << 24)
    lat = RXF[0] + rng.uniform(-0.8, 0.8)
    lon = RXF[1] + rng.uniform(-1.2, 1.2)
    fr = [track_checks.f_ident(rng, addr, "T" + str(rng.randrange(10, 9999)))]
    if with_position:
        fr += [track_checks.f_pos(rng, addr, lat, lon, 0, 12000), track_checks.f_pos(rng, addr, lat, lon, 1, 12000)]
        if rng.random() < 0.6:
            fr.append(track_checks.f_vel(rng, addr, (rng.randrange(2), rng.randrange(1, 400)), (rng.randrange(2), rng.randrange(1, 400)), (0, 9)))
    return b"".join(b"*" + bytes(f).hex().encode() + b";\n" for f in fr)


def asks_to_quit(data):
    """does this burst of terminal input contain a quit request as the program reads it?  `q` with any modifier (ESC q is
    Alt+q) and Ctrl-C on its own; ESC directly followed by Ctrl-C is Alt+Ctrl+C, which is not one"""
    return b"q" in data or re.search(rb"(?<!\x1b)\x03", data) is not None


def session(bindir, steps, tag, size=(24, 80), touch=False, filter_time=120, quit_at_end=True, scale=None, options=()):
    """steps: list of ("key", name) / ("keys", [names]) burst / ("mouse", kind, col, row) / ("raw", bytes) /
    ("resize", rows, cols) / ("arrive", with_position) / ("junk", bytes: a line of the feed that is no frame) /
    ("wait", seconds) / ("frame",); options: further command-line options"""
    rng = random.Random(hash(tag) & 0xFFFFFFF)
    srv = apps.FeedServer([{"segments": [], "interactive": True}])
    srv.start()
    args = ["--lat", str(RXF[0]), "--long", str(RXF[1]), "--filter-time", str(filter_time)]
    if touch:
        args.append("--touchscreen")
    if scale is not None:
        args += ["--scale", str(scale)]
    args += list(options)
    rd = apps.Radar(bindir, srv.port, args, size=size)
    quit_sent = 0
    try:
        rd.wait_frames(2, 6)
        for st in steps:
            if rd.poll() is not None:
                break
            n = rd.frame_count()
            k = st[0]
            if k == "key":
                rd.send(apps.KEYS[st[1]])
                if asks_to_quit(apps.KEYS[st[1]]):
                    quit_sent = 1
                rd.wait_frames(n + 1, 2)
            elif k == "keys":
                rd.send(b"".join(apps.KEYS[x] for x in st[1]))
                if asks_to_quit(b"".join(apps.KEYS[x] for x in st[1])):
                    quit_sent = 1
                rd.wait_frames(n + 1, 2)
            elif k == "mouse":
                rd.send(apps.mouse(st[1], st[2], st[3]))
                rd.wait_frames(n + 1, 2)
            elif k == "raw":
                rd.send(st[1])
                if asks_to_quit(st[1]):
                    quit_sent = 1
                rd.wait_frames(n + 1, 2)
            elif k == "resize":
                rd.resize(st[1], st[2])
                rd.wait_frames(n + 2, 2)
            elif k == "arrive":
                srv.push(aircraft_lines(rng, st[1]))
                rd.wait_frames(n + 5, 3)
            elif k == "junk":
                srv.push(st[1])
                rd.wait_frames(n + 2 + st[1].count(b"\n") // 2, 3)
            elif k == "samespot":
                lat, lon = RXF[0] + 0.31, RXF[1] + 0.47
                for _ in range(st[1]):
                    addr = rng.randrange(1, 1 << 24)
                    fr = [track_checks.f_pos(rng, addr, lat, lon, 0, 12000), track_checks.f_pos(rng, addr, lat, lon, 1, 12000)]
                    srv.push(b"".join(b"*" + bytes(f).hex().encode() + b";\n" for f in fr))
                rd.wait_frames(n + 8, 3)
            elif k == "wait":
                t0 = time.time()
                while time.time() - t0 < st[1]:
                    rd.pump(0.05)
            else:
                rd.wait_frames(n + 1, 2)
        if quit_at_end and not quit_sent and rd.poll() is None:
            rd.send(apps.KEYS["q"])
            quit_sent = 1
        if quit_sent:
            status = rd.wait_exit(4)
            alive = 1 if status is None else 0
        else:
            t0 = time.time()
            while time.time() - t0 < 0.3:
                rd.pump(0.05)
            status = rd.poll()
            alive = 1 if status is None else 0
        tb = apps.termios_summary(rd.termios_before)
        ta = apps.termios_summary(rd.termios_after())
        modes = apps.modes_at_end(rd.out)
        out = bytes(rd.out)
        ev = [{"ev": "session_start", "tag": tag, "rx": {"lat": round(RXF[0] * 1e6), "lon": round(RXF[1] * 1e6)},
               "scale9": round((scale if scale is not None else 0.12) * 1e9), "retry": 0, "quit_sent": quit_sent,
               "filter_time": min(filter_time, 2000000000)}]      # (the trace checker's integers are 32 bits wide)
        ev += [e for e in rd.events() if e.get("ev") != "unparsable"]
        ev.append({"ev": "session_end", "tag": tag, "quit_sent": quit_sent, "alive": alive, "exit": status if status is not None else -1,
                   "panic": 1 if b"panicked" in out else 0, "termios_before": tb, "termios_after": ta,
                   "modes": {"mouse": max([modes.get(m, 0) for m in (1000, 1002, 1003, 1006, 1015)]),
                             "cursor": modes.get(25, 1), "altscreen": modes.get(1049, 0)},
                   "panic_text": (re.search(rb"panicked at ([^\r\n]*)", out).group(1).decode("latin-1")[:120] if b"panicked" in out else "")})
        return ev
    finally:
        srv.stop()
        rd.cleanup()


def noserver_session(bindir, tag, quit_key):
    """nobody listens on the port: radar shows 'Waiting for connection'; quit must still restore the terminal"""
    import socket
    s_ = socket.socket()
    s_.bind(("127.0.0.1", 0))
    port = s_.getsockname()[1]
    s_.close()
    rd = apps.Radar(bindir, port, ["--lat", str(RXF[0]), "--long", str(RXF[1])])
    try:
        t0 = time.time()
        while time.time() - t0 < 0.8:
            rd.pump(0.05)
        rd.send(apps.KEYS[quit_key])
        status = rd.wait_exit(5)
        out = bytes(rd.out)
        modes = apps.modes_at_end(rd.out)
        return ([{"ev": "session_start", "tag": tag, "rx": {"lat": 0, "lon": 0}, "scale9": 120000000, "retry": 0, "quit_sent": 1, "filter_time": 120}]
                + apps.hook_events(rd) + [apps.session_end_event(rd, tag, 1, status, 1 if status is None else 0)])
    finally:
        rd.cleanup()


def retry_wait_session(bindir, tag, quit_key):
    """--retry-tcp: the server goes away for good; radar waits for a new connection; quit must still work and restore
    the terminal"""
    srv = apps.FeedServer([{"segments": [[list(aircraft_lines(random.Random(7), True)), "short"]], "then": "close", "linger": 0.2}])
    srv.start()
    rd = apps.Radar(bindir, srv.port, ["--lat", str(RXF[0]), "--long", str(RXF[1]), "--retry-tcp"])
    try:
        rd.wait_frames(2, 6)
        srv.done_sending.wait(10)
        t0 = time.time()
        while time.time() - t0 < 1.5:          # server closed and no longer listening: "Waiting for connection"
            rd.pump(0.05)
        rd.send(apps.KEYS[quit_key])
        status = rd.wait_exit(5)
        out = bytes(rd.out)
        modes = apps.modes_at_end(rd.out)
        return ([{"ev": "session_start", "tag": tag, "rx": {"lat": 0, "lon": 0}, "scale9": 120000000, "retry": 1, "quit_sent": 1, "filter_time": 120}]
                + apps.hook_events(rd) + [apps.session_end_event(rd, tag, 1, status, 1 if status is None else 0)])
    finally:
        srv.stop()
        rd.cleanup()


def life_session(bindir, rng, tag, retry, nconn, last, quit_key):
    """the client's life around its connections (Trace_Session): `nconn` connections, each with some traffic, each closed by
    the server; `last` says what follows the last close: "gone" (nobody listens any more) or "hold" (one more connection that
    stays open).  Without --retry-tcp the first close ends the client by itself.  At the end the operator quits (if the
    client still runs)."""
    script = []
    for c in range(nconn):
        script.append({"segments": [[list(aircraft_lines(rng, rng.random() < 0.6)), rng.choice(("short", "long"))] for _ in range(rng.randrange(0, 3))],
                       "then": "close", "linger": rng.choice((0.1, 0.3)), "pause": rng.choice((0, 0.3))})
    if last == "hold":
        script.append({"segments": [[list(aircraft_lines(rng, True)), "short"]], "then": "hold"})
    srv = apps.FeedServer(script)
    srv.start()
    rd = apps.Radar(bindir, srv.port, ["--lat", str(RXF[0]), "--long", str(RXF[1])] + (["--retry-tcp"] if retry else []))
    quit_sent = 0
    try:
        rd.wait_frames(2, 6)
        srv.done_sending.wait(20)
        t0 = time.time()
        while time.time() - t0 < 1.0:
            rd.pump(0.05)
        # some operator input while the client is in whatever state it is in
        for k in rng.sample(["F3", "Down", "F1", "+", "x", "F9"], 2):
            if rd.poll() is None:
                rd.send(apps.KEYS[k])
                rd.wait_frames(rd.frame_count() + 1, 0.5)
        if rd.poll() is None:
            rd.send(apps.KEYS[quit_key])
            quit_sent = 1
            status = rd.wait_exit(5)
        else:
            status = rd.poll()
        return ([{"ev": "session_start", "tag": tag, "rx": {"lat": round(RXF[0] * 1e6), "lon": round(RXF[1] * 1e6)}, "scale9": 120000000,
                  "retry": 1 if retry else 0, "quit_sent": quit_sent, "filter_time": 120}]
                + apps.hook_events(rd) + [apps.session_end_event(rd, tag, quit_sent, status, 1 if status is None else 0)])
    finally:
        srv.stop()
        rd.cleanup()


def flood_session(bindir, tag, nkeys):
    """`nkeys` arrow keys and then q, written to the terminal in ONE burst (a paste, a key-repeat backlog), then silence.
    If the client has not ended after 2.5 s one more (meaningless) key is sent: `delayed` = it ended only then."""
    srv = apps.FeedServer([{"segments": [], "interactive": True}])
    srv.start()
    rd = apps.Radar(bindir, srv.port, ["--lat", str(RXF[0]), "--long", str(RXF[1])])
    try:
        rd.wait_frames(3, 6)
        os.write(rd.fd, apps.KEYS["Left"] * nkeys + apps.KEYS["q"])
        status = rd.wait_exit(2.5)
        delayed = 0
        if status is None:
            rd.send(apps.KEYS["x"])
            status = rd.wait_exit(3)
            delayed = 1 if status is not None else 0
        end = apps.session_end_event(rd, tag, 1, status, 1 if status is None else 0)
        end["delayed"] = delayed
        end["burst_bytes"] = 3 * nkeys + 1
        return ([{"ev": "session_start", "tag": tag, "rx": {"lat": round(RXF[0] * 1e6), "lon": round(RXF[1] * 1e6)}, "scale9": 120000000,
                  "retry": 0, "quit_sent": 1, "filter_time": 120}] + apps.hook_events(rd) + [end])
    finally:
        srv.stop()
        rd.cleanup()


def judge_sessions(prop, rep, events, name):
    """the lifecycle of every recorded session against RadarSession (Trace_Session)"""
    verdicts, st, tr = core.validate_events("Trace_Session", events, name, shards=8, boundary=lambda e: e["ev"] == "session_start")
    rep.add_trace_stats(st, tr, 0)
    starts = [i for i, e in enumerate(events) if e["ev"] == "session_start"]
    import bisect
    for v in verdicts:
        si = bisect.bisect_right(starts, v["index"]) - 1
        lo = starts[si]
        ev = events[v["index"]]
        cls = re.sub(r"(model|random|life|stale|samespot)\d+", r"\1", v["cls"])
        keep = ("ev", "keys", "quit", "code", "added", "hex", "exit", "alive", "quit_sent", "retry", "tag", "filter_time", "panic",
                "termios_before", "termios_after", "modes")
        hi = next((j for j in range(v["index"], len(events)) if events[j]["ev"] == "session_end"), v["index"])
        whole = [{k2: e[k2] for k2 in e if k2 in keep} for e in events[lo:hi + 1]]
        window = whole[max(0, v["index"] - lo - 12):v["index"] - lo + 1]
        for owner, field in v["pairs"]:
            rep.mismatch(owner, cls, field, {"kind": "session", "session_start": events[lo], "events_before": window, "events": whole})
    rep.extra["lifecycle_sessions_judged"] = rep.extra.get("lifecycle_sessions_judged", 0) + len(starts)
    rep.extra["lifecycle_events"] = rep.extra.get("lifecycle_events", 0) + len(events)
    return verdicts


# Level I follows the code: "0" = the line buffer survives a disconnect (the code as found), "1" = it is emptied
CLEAR_ON_DISCONNECT = "1"


def input_queue_model(rep):
    """InputQueue.tla: the terminal -> event source -> handler path.  The edge-triggered source (the library as pinned) gets
    stuck exactly for bursts larger than one chunk - the model-level face of the open finding F1; a source notified while
    bytes remain does not."""
    out = {}
    for edge, burst, want_ok in (("1", "8", True), ("1", "9", False), ("0", "9", True), ("1", "20", False), ("0", "20", True)):
        res = core.run_mc("MC_InputQueue", workers=2, timeout=300, cache=False, env_extra={"EDGE": edge, "BURST": burst})
        out[f"edge={edge},burst={burst}(chunk=8)"] = "drained" if res["ok"] else "stuck: " + ",".join(res["violated"])
        if res["ok"] != want_ok:
            raise core.ToolError(f"MC_InputQueue edge={edge} burst={burst}: expected {'ok' if want_ok else 'stuck'}, got {res['violated']}")
    rep.extra["input_queue_model"] = out


def input_queue_unbounded(rep):
    """Apalache (symbolic): for ANY chunk size and ANY burst size the level-triggered source never gets stuck - IndInv holds
    initially, is preserved by every step, and implies NeverStuck (three bounded checks of length 0 / 1 / 0)"""
    work = os.path.join(core.BUILD, "work", "apalache-inputqueue")
    subprocess.run(["rm", "-rf", work])
    os.makedirs(work)
    subprocess.run(["cp", os.path.join(core.SPEC, "InputQueue.tla"), work])
    runs = (("--init=Init", "--inv=IndInv", "--length=0"), ("--init=IndInit", "--inv=IndInv", "--length=1"), ("--init=IndInit", "--inv=NeverStuck", "--length=0"))
    for r in runs:
        p = subprocess.run(["timeout", "900", "apalache-mc", "check", "--cinit=CInitLevel"] + list(r) + ["InputQueue.tla"], cwd=work,
                           stdout=subprocess.PIPE, stderr=subprocess.STDOUT, text=True)
        if "The outcome is: NoError" not in p.stdout:
            subprocess.run(["rm", "-rf", work])
            raise core.ToolError("apalache-mc did not confirm " + " ".join(r) + ": " + p.stdout[-500:])
    subprocess.run(["rm", "-rf", work])
    rep.extra["input_queue_apalache"] = "IndInv inductive and implies NeverStuck for every Chunk > 0, Burst > 0 (level-triggered source)"


def lifecycle_model(prop, tier, rep):
    """Step D for the client's life (RadarSession): safety and, under weak fairness of the program's own steps, liveness"""
    for r in ("0", "1"):
        res = core.run_mc("MC_RadarSession", workers=4, timeout=900, cache=False, env_extra={"RETRY": r, "RESTORE": "1", "CLEAR": CLEAR_ON_DISCONNECT})
        rep.add_model(res, f"MC_RadarSession(retry={r}): Inv, KeepsAircraft, RunsUntilAsked, QuitLeadsToExit, ClosedFeedLeadsToExit, Reconnects")
        if not res["ok"]:
            rep.mismatch(prop, "session|model", "lifecycle", {"kind": "model", "violated": res["violated"], "tail": res["output_tail"][-800:]})
    if tier == "thorough":
        r0 = core.run_mc("MC_RadarSession", workers=4, timeout=900, cache=False, env_extra={"RETRY": "1", "RESTORE": "0", "CLEAR": "1"})
        rep.extra["original_wait_quit_model_violates_TerminalRestored"] = (not r0["ok"]) and "Inv" in r0["violated"]
        if r0["ok"]:
            raise core.ToolError("anti-vacuity: the model of the original wait-quit path no longer violates TerminalRestored")
        r1 = core.run_mc("MC_RadarSession", workers=4, timeout=900, cache=False, env_extra={"RETRY": "1", "RESTORE": "1", "CLEAR": "0"})
        rep.extra["original_line_buffer_model_violates_LinesIntact"] = (not r1["ok"]) and "Inv" in r1["violated"]
        if r1["ok"]:
            raise core.ToolError("anti-vacuity: the model that keeps the line buffer across a disconnect no longer violates LinesIntact")


def life_jobs(rng, tier):
    jobs = []
    n = 1 if tier == "quick" else 12
    for i in range(n):
        for retry, nconn, last in ((False, 1, "gone"), (False, 1, "hold"), (True, 1, "hold"), (True, 2, "hold"), (True, 1, "gone"), (True, 2, "gone")):
            jobs.append(dict(tag=f"life{len(jobs)}-{'retry' if retry else 'once'}-{nconn}-{last}", retry=retry, nconn=nconn, last=last,
                             quit_key=rng.choice(("q", "CtrlC")), seed=rng.getrandbits(32)))
    return jobs


KEYNAMES = ["F1", "F2", "F3", "F4", "F5", "Tab", "Enter", "Up", "Down", "Left", "Right", "+", "-", "l", "i", "h", "t", "n", "x", "Esc", "Space", "PageDown",
            "F6", "F7", "F8", "F9", "F10", "F11", "F12", "Home", "End", "Insert", "Delete", "PageUp", "BackTab", "Backspace", "Q", "L", "ShiftF1", "CtrlF3", "AltX", "0"]
CODE2KEY = {"F(1)": "F1", "F(2)": "F2", "F(3)": "F3", "F(4)": "F4", "F(5)": "F5", "Tab": "Tab", "Up": "Up", "Down": "Down", "Left": "Left",
            "Right": "Right", "Enter": "Enter", "Char('+')": "+", "Char('-')": "-", "Char('l')": "l", "Char('t')": "t", "Char('x')": "x", "Char('q')": "q"}
MKIND = {"Down(Left)": "down", "Drag(Left)": "drag", "Up(Left)": "up", "ScrollUp": "scrollup", "ScrollDown": "scrolldown"}


def random_session(rng, i):
    size = rng.choice([(24, 80), (24, 80), (40, 120), (10, 40), (5, 5), (1, 1), (3, 200), (50, 10), (2, 2)])
    steps = []
    n_air = rng.choice((0, 0, 1, 2, 4))
    for _ in range(n_air):
        steps.append(("arrive", rng.random() < 0.7))
    for _ in range(rng.randrange(5, 30)):
        r = rng.random()
        if r < 0.45:
            steps.append(("key", rng.choice(KEYNAMES)))
        elif r < 0.6:
            steps.append(("keys", [rng.choice(KEYNAMES) for _ in range(rng.randrange(2, 5))]))
        elif r < 0.85:
            steps.append(("mouse", rng.choice(("down", "up", "drag", "drag", "scrollup", "scrolldown", "rdown", "move")),
                          rng.randrange(0, size[1] + 3), rng.randrange(0, size[0] + 3)))
        elif r < 0.93:
            steps.append(("resize",) + rng.choice([(24, 80), (1, 1), (5, 5), (2, 30), (60, 200), (10, 10), (24, 12)]))
        elif r < 0.96:
            steps.append(("arrive", rng.random() < 0.7))
        elif r < 0.975:
            # "any traffic": lines that are no frames (empty, too short, not hex, not ASCII, all zero, of another format)
            import feed_checks
            steps.append(("junk", rng.choice(feed_checks.MALFORMED + [b"*" + bytes(gen.rnd_frame(rng, rng.choice(sorted(gen.SUPPORTED)))).hex().encode() + b";\n"])))
        else:
            steps.append(("raw", rng.choice((b"\x1b[<0;500;500M", b"\x1b[99~", b"\x00", b"\x1b[<64;1;1M", b"\xc3\xa9", b"\x1b[1;5A"))))
        # keys and mouse events arriving together, handled in one go before the next draw (what was drawn last and what
        # the state says now may differ: a tab switch followed by a click)
        if rng.random() < 0.12:
            burst = b""
            for _ in range(rng.randrange(2, 5)):
                if rng.random() < 0.5:
                    burst += apps.KEYS[rng.choice(("F1", "F2", "F3", "F4", "F5", "Tab", "Enter", "Down"))]
                else:
                    burst += apps.mouse(rng.choice(("down", "down", "up", "drag", "scrollup")), rng.randrange(0, size[1]), rng.randrange(0, size[0]))
            steps.append(("raw", burst))
    # type-ahead after the quit key: a burst in which q / Ctrl-C is followed by further keys (the request stands)
    if rng.random() < 0.25:
        steps.append(("keys", [rng.choice(KEYNAMES) for _ in range(rng.randrange(0, 2))] + [rng.choice(("q", "CtrlC"))]
                      + [rng.choice(KEYNAMES) for _ in range(rng.randrange(1, 4))]))
    # option combinations (display toggles, parsing limited to extended squitters, range, scale)
    options = []
    for o in ("--limit-parsing", "--disable-lat-long", "--disable-callsign", "--disable-icao", "--disable-heading", "--disable-track"):
        if rng.random() < 0.2:
            options.append(o)
    if rng.random() < 0.15:
        options += ["--max-range", str(rng.choice((0, 1, 50, 500, 100000)))]
    if rng.random() < 0.15:
        options += ["--locations", "(HOME,%s,%s)" % (RXF[0] + 0.3, RXF[1] - 0.4), "(FAR,-89.9,179.9)"]
    if "--limit-parsing" in options or rng.random() < 0.15:
        # every kind of line that is no frame, one after the other (with parsing limited to extended squitters the lines
        # take another path through the client)
        import feed_checks
        steps.insert(rng.randrange(len(steps) + 1), ("junk", b"".join(feed_checks.MALFORMED)))
    # (expiry thresholds: the default, one second, none at all - and the values somebody passes for "never expire")
    return dict(steps=steps, tag=f"random{i}", size=size, touch=rng.random() < 0.4,
                filter_time=rng.choice((120, 120, 1, 0, 120, 1, 0, 18446744073709551615, 9223372036854775807, 9223372036854775808, 4294967296)),
                quit_at_end=rng.random() < 0.8, options=options)


def model_sessions(tier, rep, rng, count):
    env = {"GUARDS": "1", "MAXBURST": "3", "MAXSTEPS": "6" if tier == "quick" else "7", "TOUCH": "1", "REPLAY": "1"}
    res = core.run_mc("MC_RadarUI", workers=8, timeout=3000, cache=False, env_extra=env)
    rep.add_model(res, "MC_RadarUI")
    if not res["ok"]:
        rep.mismatch("C17", "ui|model", "no_panic", {"kind": "model", "violated": res["violated"], "tail": res["output_tail"][-800:]})
    # ... and long random walks of the same machine (TLC's simulation mode): each passes through many kinds of state
    env2 = dict(env, MAXSTEPS="36")
    sim = core.run_mc("MC_RadarUI", workers=1, timeout=600, cache=False, env_extra=env2,
                      extra_args=["-simulate", "num=%d" % (300 if tier == "quick" else 3000), "-depth", "40", "-seed", str(rng.getrandbits(31))])
    rep.add_model(sim, "MC_RadarUI (random walks of 36 steps)")
    if not sim["ok"]:
        rep.mismatch("C17", "ui|model", "no_panic", {"kind": "model", "violated": sim["violated"], "tail": sim["output_tail"][-800:]})
    hs, covers = [], []
    for t in sim["tuples"] + res["tuples"]:
        if t.startswith('<<"REPLAY"'):
            head, _, tail = t.partition('"SIGS"')
            items = re.findall(r'<<"(draw|loop|expire)">>|<<"key", "([^"]+)">>|<<"mouse", "([^"]+)", (\d+), (\d+)>>|<<"arrive", (\d)>>', head)
            sg = re.findall(r'<<(\d+), (\d+), (\d+), (\d+)>>', tail)
            if len(sg) != len(items):
                raise core.ToolError("MC_RadarUI: behaviour and signature histories differ in length")
            hs.append(items)
            # a transition class: the event, and the kind of state it was handled in (tab, selection none / on a row /
            # beyond the rows, number of rows, whether the tab drawn last is still the current one)
            covers.append({(it[1] or it[2] + it[3] + "," + it[4] or it[0] or "arrive" + it[5], g[0], g[1], g[2], g[0] == g[3]) for it, g in zip(items, sg)
                           if it[1] or it[2]})
    # one replay per transition class of the model first (greedy cover, rarest classes first), the rest at random from the
    # behaviours that involve the Airplanes tab, arrivals and expiry
    freq = {}
    for c in covers:
        for x in c:
            freq[x] = freq.get(x, 0) + 1
    allsig = set(freq)
    # (the Airplanes tab is where handlers index into the data: its classes come first)
    wt = lambda x: (5.0 if x[1] == "2" else 1.0) / freq[x]
    order = sorted(range(len(hs)), key=lambda i: -sum(wt(x) for x in covers[i]))
    covered, pick_idx = set(), []
    budget = count * 3 // 4
    # (greedy over a pre-sorted candidate list, re-scored lazily: good enough and linear)
    cand = order[:20000]
    while len(pick_idx) < budget and covered != allsig:
        best, best_gain = None, 0.0
        for i in cand:
            gain = sum(wt(x) for x in covers[i] if x not in covered)
            if gain > best_gain:
                best, best_gain = i, gain
        if best is None:
            break
        pick_idx.append(best)
        covered |= covers[best]
    rep.extra["model_transition_classes"] = len(allsig)
    rep.extra["model_transition_classes_replayed"] = len(covered)
    def score(h):
        txt = json.dumps(h)
        return ("F(3)" in txt) * 2 + ("arrive" in txt) + ("expire" in txt) * 2 + ("Enter" in txt) + ("Down(Left)" in txt)
    rest = sorted((i for i in range(len(hs)) if i not in set(pick_idx)), key=lambda i: -score(hs[i]))
    pool = rest[:max(count * 20, 200)]
    pick_idx += rng.sample(pool, min(count - len(pick_idx), len(pool)))
    pick = [hs[i] for i in pick_idx]
    out = []
    for i, h in enumerate(pick):
        steps = []
        burst = []
        has_expire = False
        for (simple, key, mk, mc, mr, arr) in h:
            if key:
                burst.append(("k", CODE2KEY[key]))
            elif mk:
                burst.append(("m", MKIND[mk], int(mc), int(mr)))
            else:
                if burst:
                    raw = b"".join(apps.KEYS[b[1]] if b[0] == "k" else apps.mouse(b[1], b[2], b[3]) for b in burst)
                    steps.append(("raw", raw))
                    burst = []
                if arr != "":
                    steps.append(("arrive", arr == "1"))
                elif simple == "expire":
                    steps.append(("wait", 1.4))
                    has_expire = True
                else:
                    steps.append(("frame",))
        if burst:
            raw = b"".join(apps.KEYS[b[1]] if b[0] == "k" else apps.mouse(b[1], b[2], b[3]) for b in burst)
            steps.append(("raw", raw))
        quit_in = any(k == "Char('q')" for (_, k, _, _, _, _) in h)
        out.append(dict(steps=steps, tag=f"model{i}", size=(24, 80), touch=True, filter_time=1 if has_expire else 120, quit_at_end=True))
    return out, len(hs)


CLI_BAD = [["--lat", "abc", "--long", "4"], ["--lat", "52"], ["--long", "4"], ["--lat", "52", "--long", "4", "--port", "99999"],
           ["--lat", "52", "--long", "4", "--scale", "x"], ["--lat", "52", "--long", "4", "--locations", "(a)"],
           ["--lat", "52", "--long", "4", "--locations", "(a,1)"], ["--lat", "52", "--long", "4", "--locations", "a,b,c"],
           ["--lat", "52", "--long", "4", "--locations", ""], ["--lat", "52", "--long", "4", "--locations", "()"],
           ["--lat", "52", "--long", "4", "--filter-time", "-1"], ["--lat", "52", "--long", "4", "--max-range", "far"],
           ["--lat", "52", "--long", "4", "--host", "not-an-ip"], ["--lat", "52", "--long", "4", "--locations", "(x,1.0)", "(y,2,3)"],
           ["--lat", "", "--long", ""], ["--lat", "52", "--long", "4", "--no-such-option"], ["--lat", "52", "--long", "4", "--locations", ",,"],
           # a log folder that cannot be created (under a missing /proc entry; where a file already is)
           ["--lat", "52", "--long", "4", "--log-folder", "/proc/nope/x"], ["--lat", "52", "--long", "4", "--log-folder", "/etc/passwd"]]


# legal option values nobody passes on an ordinary day: a zoom of nothing, negative, not a number, beyond any map; a receiver
# range of nothing, negative, without bound; named places at the poles, on the date line, nowhere (not a number), with no
# name or a very long one; a time-zone filter without a table to filter
CORNER_OPTIONS = [["--scale=0"], ["--scale=-1"], ["--scale=nan"], ["--scale=1e300"], ["--scale=inf"], ["--scale=-inf"], ["--scale=1e-300"],
                  ["--max-range=nan"], ["--max-range=-1"], ["--max-range=inf"], ["--max-range=-inf"],
                  ["--locations", "(x,nan,nan)", "(N,90,180)", "(S,-90,-180)", "(,0,0)", "(" + "a very long name " * 8 + "\u00fc\u00e9,52.1,4.1)"],
                  ["--airports-tz-filter", "Europe/Amsterdam"], ["--scale=0", "--max-range=0", "--disable-track", "--disable-heading"]]


def cli_pty_event(bindir, args, tag):
    """an invalid option value that is only looked at after the connection is up (a file to read): run in a pty against a
    live feed, because what matters is also the state the terminal is left in"""
    srv = apps.FeedServer([{"segments": [], "interactive": True}])
    srv.start()
    rd = apps.Radar(bindir, srv.port, ["--lat", str(RXF[0]), "--long", str(RXF[1])] + list(args))
    try:
        status = rd.wait_exit(4)
        if status is None:
            rd.send(apps.KEYS["q"])
            rd.wait_exit(3)
        out = bytes(rd.out)
        modes = apps.modes_at_end(rd.out)
        return {"ev": "cli", "args": list(args), "invalid": 1, "exit": status if status is not None else -1,
                "panic": 1 if b"panicked" in out else 0, "stderr": tag,
                "termios_before": apps.termios_summary(rd.termios_before), "termios_after": apps.termios_summary(rd.termios_after()),
                "mouse_left_on": max([modes.get(x, 0) for x in (1000, 1002, 1003, 1006, 1015)])}
    finally:
        srv.stop()
        rd.cleanup()


def cli_event(bindir, args):
    r = subprocess.run([os.path.join(bindir, "radar")] + args + ([] if "--log-folder" in args else ["--log-folder", "/tmp/radar-cli-logs"]), stdin=subprocess.DEVNULL,
                       stdout=subprocess.PIPE, stderr=subprocess.PIPE, timeout=20)
    return {"ev": "cli", "args": args, "invalid": 1, "exit": r.returncode, "panic": 1 if b"panicked" in r.stderr else 0,
            "stderr": r.stderr.decode("latin-1")[:160]}


def run(prop, tier, seed, rep):
    rng = random.Random(seed * 1000003 + 17)
    bindir = core.build_apps()
    msess, nmodel = model_sessions(tier, rep, rng, 60 if tier == "quick" else 400)
    rsess = [random_session(rng, i) for i in range(24 if tier == "quick" else 1500)]
    # what was drawn last and what the state says now can differ within one burst: a key that changes the tab followed at
    # once by a click (touchscreen buttons exist only where they were drawn), in both directions
    stale = []
    for i, touch in enumerate((True, True, False)):
        st = [("frame",), ("key", "F4"), ("raw", apps.KEYS["F1"] + apps.mouse("down", 50, 15)), ("frame",),
              ("key", "F5"), ("raw", apps.KEYS["Tab"] + apps.mouse("down", 5, 8)), ("frame",),
              ("arrive", True), ("key", "F3"), ("key", "Down"), ("raw", apps.KEYS["Enter"] + apps.mouse("down", 5, 12) + apps.mouse("up", 5, 12)), ("frame",),
              ("raw", apps.KEYS["F3"] + apps.mouse("down", 5, 6)), ("frame",), ("raw", apps.KEYS["F2"] + apps.mouse("down", 5, 20) + apps.mouse("drag", 40, 12)), ("frame",)]
        if i == 1:
            st = st[4:] + st[:4]
        stale.append(dict(steps=st, tag=f"stale{i}", size=(24, 80), touch=touch, filter_time=120, quit_at_end=True))
    # option values at the far ends of what the command line accepts (every one a legal value: the client must run, take
    # the same operator actions and leave by the quit key like with any other)
    corner = []
    for i, opts in enumerate(CORNER_OPTIONS):
        j = random_session(rng, 5000 + i)
        j.update(options=list(opts), tag=f"corner{i}", quit_at_end=True)
        corner.append(j)
    # several aircraft at one spot (one coverage cell is hit again and again), every tab visited, for a while
    jobs = msess + rsess + stale + corner + [dict(steps=[("frame",), ("samespot", 3), ("key", "F2"), ("wait", 1.0), ("key", "F3"), ("key", "F2"), ("wait", 0.6),
                                                 ("key", "F4"), ("key", "F1"), ("key", "F2"), ("frame",)],
                                          tag="samespot0", size=(30, 100), touch=False, filter_time=120, quit_at_end=True)]

    def do(j):
        return session(bindir, **j)
    with cf.ThreadPoolExecutor(max_workers=12) as ex:
        results = list(ex.map(do, jobs))
    for qk in ("q", "CtrlC"):
        results.append(noserver_session(bindir, "noserver-" + qk, qk))
        jobs.append({"tag": "noserver-" + qk})
    for qk in ("q", "CtrlC"):
        results.append(retry_wait_session(bindir, "retrywait-" + qk, qk))
        jobs.append({"tag": "retrywait-" + qk})
    # a burst of terminal input below and above the size the terminal library reads at a time (1024 bytes), ending in q
    # (InputQueue.tla predicts the threshold: delayed exactly when the burst exceeds the 1024 bytes read per notification)
    # terminals at and beyond 65 535 cells (what the drawing library's buffer can address)
    for rows, cols in ((255, 257), (200, 400)):
        tag = f"huge-{rows}x{cols}"
        results.append(session(bindir, [("frame",), ("resize", rows, cols), ("key", "F3"), ("key", "F1"), ("frame",)], tag))
        jobs.append({"tag": tag})
    for nkeys in (300, 341, 342, 500):
        results.append(flood_session(bindir, f"flood-{3 * nkeys + 1}", nkeys))
        jobs.append({"tag": f"flood-{3 * nkeys + 1}"})
    # the client's life around its connections: judged by Trace_Session only (a client that ends by itself when its feed
    # goes away is not a session Trace_UI knows)
    lifecycle_model(prop, tier, rep)
    input_queue_model(rep)
    if tier == "thorough":
        input_queue_unbounded(rep)
    lj = life_jobs(rng, tier)
    with cf.ThreadPoolExecutor(max_workers=6) as ex:
        life = list(ex.map(lambda j: life_session(bindir, random.Random(j["seed"]), j["tag"], j["retry"], j["nconn"], j["last"], j["quit_key"]), lj))
    judge_sessions(prop, rep, [e for r in results + life for e in r], prop + "-session")
    rep.extra["lifecycle_sessions_with_disconnects"] = len(life)
    events = [e for r in results for e in r]
    events.append({"ev": "session_start", "tag": "cli", "rx": {"lat": 0, "lon": 0}, "scale9": 0})
    for a in CLI_BAD:
        events.append(cli_event(bindir, a))
    # option values naming files: a missing file, a file that is not the expected table
    bad_csv = os.path.join(core.BUILD, "work", "not_airports.csv")
    os.makedirs(os.path.dirname(bad_csv), exist_ok=True)
    open(bad_csv, "w").write("icao,iata,name\nXX,YY\n")
    for a, tag in ((["--airports", "/nonexistent/airports.csv"], "airports-missing"), (["--airports", bad_csv], "airports-malformed")):
        events.append(cli_pty_event(bindir, a, tag))
    subprocess.run(["rm", "-rf", "/tmp/radar-cli-logs"])
    starts = [i for i, e in enumerate(events) if e["ev"] == "session_start"]
    verdicts, st, tr = core.validate_events("Trace_UI", events, prop, shards=8, boundary=lambda e: e["ev"] == "session_start")
    rep.add_trace_stats(st, tr, len(results))
    import bisect
    drifts = list(core.LAST_INFOS)
    json.dump([{"what": d["what"], "event": events[d["index"]], "before": events[d["index"] - 1]} for d in drifts[:40]],
              open(os.path.join(core.BUILD, f"last_{prop}_drift.json"), "w"), indent=1)
    summary = {}
    for v in verdicts:
        si = bisect.bisect_right(starts, v["index"]) - 1
        ev = events[v["index"]]
        job = jobs[si] if si < len(jobs) else {"tag": "cli"}
        for owner, field in v["pairs"]:
            k = f"{owner}|{v['cls']}|{field}"
            cls = re.sub(r"(model|random|stale|samespot|corner)\d+", r"\1", v["cls"])
            summary.setdefault(k, [0, ev.get("panic_text", ev.get("stderr", ""))])[0] += 1
            w = {"kind": "ui", "event": {k2: ev[k2] for k2 in ev if k2 not in ("planes",)}}
            if "steps" in job:
                w["session"] = {"steps": [[x.decode("latin-1") if isinstance(x, bytes) else x for x in s_] for s_ in job["steps"]],
                                "size": job["size"], "touch": job["touch"], "filter_time": job["filter_time"], "options": list(job.get("options", ()))}
            rep.mismatch(owner, cls, field, w)
    json.dump(summary, open(os.path.join(core.BUILD, f"last_{prop}_verdicts.json"), "w"), indent=1, sort_keys=True)
    if tier == "thorough":
        idx = next(i for i, e in enumerate(events) if e["ev"] == "session_end" and e["quit_sent"] == 1 and e["exit"] == 0)
        lo = max(j for j in range(idx) if events[j]["ev"] == "session_start")
        core.anti_vacuity(rep, "Trace_UI", events[lo:idx + 1], [(idx - lo, lambda e: (e["termios_after"].update(echo=0), e)[1], "C17")],
                          boundary=lambda e: e["ev"] == "session_start", name="C17-selftest")
    kinds = {}
    for e in events:
        kinds[e["ev"]] = kinds.get(e["ev"], 0) + 1
    rep.extra.update({"sessions": len(jobs), "sessions_from_bounded_model": len(msess), "model_behaviours_available": nmodel,
                      "events_by_kind": kinds, "cli_invocations": len(CLI_BAD), "sessions_with_corner_option_values": len(CORNER_OPTIONS), "model_drift": len(drifts),
                      "steps_explained_by_handler_tables": sum(kinds.get(k, 0) for k in ("key", "mouse", "draw")) - len(drifts),
                      "sessions_ending_with_quit": sum(1 for r in results if r[-1]["quit_sent"] == 1),
                      "terminal_sizes": sorted({str(j["size"]) for j in jobs if "size" in j})})
    rep.samples = [{"session": jobs[0]["tag"], "steps": [[x.decode("latin-1") if isinstance(x, bytes) else x for x in s_] for s_ in jobs[0]["steps"]][:6]},
                   results[0][-1]]
    rep.assumptions += ["pty driven by drivers/apps.py; the hook (guarded) logs draw/key/mouse events; a panic is recognised by its message on the terminal and the exit status",
                        "Level-I explanations of each step (RadarUI handler tables) are drift information only"]
