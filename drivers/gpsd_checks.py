"""The system's only concurrency (--gpsd: a second thread publishes position fixes through a mutex): Gpsd.tla.
Step D: MC_Gpsd - NoTornPair, MutualExclusion, NeverBackwards, LastFixAdopted (under strong fairness of the lock
acquisitions); the unlocked variant must show a torn pair.  Binding: radar is run against a scripted gpsd server on
127.0.0.1:2947 (the port is fixed in the program, so these sessions run one at a time and are skipped if the port is
taken); the receiver position of every draw must be explained by some interleaving of Gpsd's actions (Trace_Gpsd).
Beyond the listed properties: disagreements are MODEL-DRIFT."""
import json
import random
import socket
import threading
import time

import apps
import core


class GpsdServer(threading.Thread):
    def __init__(self, bursts):
        super().__init__(daemon=True)
        self.bursts = bursts                  # list of (list of (lat, lon), gap seconds)
        self.sock = socket.socket(socket.AF_INET, socket.SOCK_STREAM)
        self.sock.setsockopt(socket.SOL_SOCKET, socket.SO_REUSEADDR, 1)
        self.sock.bind(("127.0.0.1", 2947))
        self.sock.listen(1)
        self.done = threading.Event()
        self.stop_ev = threading.Event()
        self.handshook = False

    def run(self):
        try:
            self.sock.settimeout(8)
            c, _ = self.sock.accept()
            c.settimeout(5)
            c.sendall(b'{"class":"VERSION","release":"3.25","rev":"3.25","proto_major":3,"proto_minor":14}\n')
            buf = b""
            while b"\n" not in buf and b";" not in buf:
                d = c.recv(256)
                if not d:
                    break
                buf += d
            c.sendall(b'{"class":"DEVICES","devices":[]}\n{"class":"WATCH","enable":true,"json":true,"nmea":false}\n')
            self.handshook = True
            time.sleep(0.3)
            for fixes, gap in self.bursts:
                data = b"".join(json.dumps({"class": "TPV", "mode": 3, "lat": la, "lon": lo}).encode() + b"\n" for la, lo in fixes)
                # a message the client ignores in between (no lat/lon)
                c.sendall(data + b'{"class":"TPV","mode":1}\n')
                time.sleep(gap)
            self.done.set()
            self.stop_ev.wait(20)
            c.close()
        except OSError:
            pass
        finally:
            self.done.set()
            self.sock.close()


def session(bindir, rng, tag):
    nfix = rng.randrange(2, 9)
    fixes = [(round(48.0 + 0.013 * (i + 1) + rng.randrange(100) * 0.0001, 4), round(11.0 + 0.017 * (i + 1) + rng.randrange(100) * 0.0001, 4)) for i in range(nfix)]
    bursts, i = [], 0
    while i < nfix:
        k = rng.randrange(1, 4)
        bursts.append((fixes[i:i + k], rng.choice((0.0, 0.02, 0.15))))
        i += k
    try:
        g = GpsdServer(bursts)
    except OSError:
        return None
    g.start()
    feed = apps.FeedServer([{"segments": [], "interactive": True}])
    feed.start()
    cmd = (52.0, 4.0)
    rd = apps.Radar(bindir, feed.port, ["--lat", str(cmd[0]), "--long", str(cmd[1]), "--gpsd", "--gpsd-ip", "127.0.0.1"])
    try:
        rd.wait_frames(2, 6)
        g.done.wait(15)
        t0 = time.time()
        while time.time() - t0 < 0.8:
            rd.pump(0.05)
        rd.send(apps.KEYS["q"])
        rd.wait_exit(4)
        draws = [e for e in apps.hook_events(rd) if e.get("ev") == "draw"]
        ev = [{"ev": "session_start", "tag": tag, "fixes": [[round(la * 1e6), round(lo * 1e6)] for la, lo in fixes],
               "cmd": [round(cmd[0] * 1e6), round(cmd[1] * 1e6)], "handshake": 1 if g.handshook else 0}]
        ev += [{"ev": "draw", "lat": d["lat"], "long": d["long"]} for d in draws]
        return ev
    finally:
        g.stop_ev.set()
        feed.stop()
        rd.cleanup()


def run_binding(rep, tier, seed):
    for locked in ("1", "0"):
        res = core.run_mc("MC_Gpsd", workers=2, timeout=600, cache=False, env_extra={"LOCKED": locked})
        if locked == "1":
            rep.add_model(res, "MC_Gpsd (NoTornPair, MutualExclusion, NeverBackwards, LastFixAdopted under strong fairness)")
            if not res["ok"]:
                raise core.ToolError("MC_Gpsd fails on the specification itself: " + res["output_tail"][-500:])
        else:
            rep.extra["gpsd_unlocked_variant_shows_torn_pair"] = (not res["ok"]) and "NoTornPair" in res["violated"]
            if res["ok"]:
                raise core.ToolError("anti-vacuity: the unlocked Gpsd variant no longer violates NoTornPair")
    if tier == "thorough":
        # unbounded counterpart (TLAPS): any sequence of fixes, any interleaving
        import subprocess
        r = subprocess.run(["timeout", "900", "tlapm", "--threads", "4", "--cleanfp", "Gpsd_proofs.tla"], cwd=core.SPEC,
                           stdout=subprocess.PIPE, stderr=subprocess.STDOUT, text=True)
        subprocess.run(["rm", "-rf", core.SPEC + "/.tlacache"])
        import re
        m = re.search(r"All (\d+) obligations proved", r.stdout)
        if not m:
            raise core.ToolError("tlapm did not prove Gpsd_proofs.tla: " + r.stdout[-600:])
        rep.extra["gpsd_tlaps_obligations_proved"] = int(m.group(1))
    bindir = core.build_apps()
    rng = random.Random(seed * 31 + 5)
    n = 1 if tier == "quick" else 6
    done = drift = draws = 0
    for i in range(n):
        ev = session(bindir, rng, f"gpsd{i}")
        if ev is None:
            rep.extra["gpsd_sessions_skipped"] = "port 2947 is in use"
            break
        done += 1
        draws += len(ev) - 1
        core.validate_events("Trace_Gpsd", ev, f"gpsd-{i}", shards=1)
        for d in core.LAST_INFOS:
            drift += 1
            print(f"MODEL-DRIFT: gpsd session {i}: {d['what']} at line {d['index'] + 1} (fixes {ev[0]['fixes']})")
    rep.extra.update({"gpsd_sessions": done, "gpsd_draws_explained": draws, "gpsd_drift": drift})
