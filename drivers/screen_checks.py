"""C18: what radar shows is the tracker's data.  Sessions with aircraft in all four quadrants around the receiver and
view-control sequences; at every frame marker the terminal model's screen is paired with the hook's draw event of
that frame (view state + per-aircraft data) into a `screen` event judged by TLC against Trace_Screen."""
import concurrent.futures as cf
import json
import math
import os
import random
import re
import time

import apps
import core
import track_checks
import ui_checks
import vt

COLS = [(0, 6), (7, 16), (17, 24), (25, 32), (33, 40), (41, 49), (50, 56), (57, 62), (63, 71), (72, 78)]


def aircraft(rng, rx, quadrant, with_position=True, cs=None):
    addr = rng.randrange(1, 1 << 24)
    dlat = rng.uniform(0.15, 0.9) * (1 if quadrant in (0, 1) else -1)
    dlon = rng.uniform(0.2, 1.4) * (1 if quadrant in (0, 3) else -1)
    lat, lon = rx[0] + dlat, rx[1] + dlon
    cs = cs or ("Q" + str(rng.randrange(1000, 9999)))
    fr = [track_checks.f_ident(rng, addr, cs)]
    if with_position:
        alt = rng.choice((0, 1200, 12000, 35000, 50175))
        fr += [track_checks.f_pos(rng, addr, lat, lon, 0, alt), track_checks.f_pos(rng, addr, lat, lon, 1, alt)]
        if rng.random() < 0.5:
            fr.append(track_checks.f_vel(rng, addr, (rng.randrange(2), rng.randrange(1, 400)), (rng.randrange(2), rng.randrange(1, 400)), (0, 9)))
    LAST_AIRCRAFT[:] = [lat, lon, with_position]
    return b"".join(b"*" + bytes(f).hex().encode() + b";\n" for f in fr)


LAST_AIRCRAFT = [0.0, 0.0, False]


def make_places(rng, rx, tag):
    """named places for the Map and Coverage tabs: `--locations` entries and rows of an `--airports` table, in all four
    quadrants around the receiver, a fraction of a degree to a degree and a half away"""
    places, args = [], []
    if rng.random() < 0.4:
        return places, args

    def spot(name):
        q = rng.randrange(4)
        lat = round(rx[0] + rng.uniform(0.1, 1.0) * (1 if q in (0, 1) else -1), 4)
        lon = round(rx[1] + rng.uniform(0.15, 1.5) * (1 if q in (0, 3) else -1), 4)
        places.append({"name": name, "lat": round(lat * 1e6), "lon": round(lon * 1e6)})
        return lat, lon
    locs = []
    for i in range(rng.randrange(0, 4)):
        name = "LOC" + "ABCD"[i]
        lat, lon = spot(name)
        locs.append(f"({name},{lat},{lon})")
    if locs:
        args += ["--locations"] + locs
    if rng.random() < 0.5:
        path = os.path.join(core.BUILD, "work", f"airports_{tag}_{rng.getrandbits(24):06x}.csv")
        os.makedirs(os.path.dirname(path), exist_ok=True)
        with open(path, "w") as f:
            f.write("icao,iata,name,city,subd,country,elevation,lat,lon,tz\n")
            for i in range(rng.randrange(1, 3)):
                name = "KV" + "XY"[i] + "Z"
                lat, lon = spot(name)
                f.write(f"{name},V{i}Z,Field {i},Town,ST,US,12.0,{lat},{lon},America/Chicago\n")
        args += ["--airports", path]
    return places, args


def find_places(rows, places, fg):
    out = []
    for pl in places:
        for ri, r in enumerate(rows):
            ci = r.find(pl["name"])
            if ci >= 0:
                out.append({"name": pl["name"], "col": ci, "row": ri, "green": 1 if fg is not None and fg[ri][ci] == 2 else 0})
                break
    return out


def map_text_cells(rows):
    cells = []
    for ri, r in enumerate(rows[5:-2], start=5):
        for ci, ch in enumerate(r[1:-1], start=1):
            if ch not in " │─┌┐└┘" and not (0x2800 <= ord(ch) <= 0x28ff):
                cells.append([ci, ri])
    return cells[:1500]


def parse_screen(rows, draw, fg=None):
    """projection of the reconstructed screen: title counts, table cells, stats values, label positions"""
    ev = {}
    bar = rows[2] if len(rows) > 2 else ""
    m = re.search(r"Airplanes\((\d+)\)", bar)
    ev["title_count"] = int(m.group(1)) if m else -1
    box = rows[4] if len(rows) > 4 else ""
    m = re.search(r"Airplanes\((\d+)\)", box)
    ev["box_count"] = int(m.group(1)) if m else -1
    ev["cells"], ev["cells_valid"] = [], 0
    if draw["tab"] == 2 and draw["w"] >= 86 and "ICAO" in (rows[5] if len(rows) > 5 else ""):
        off = 2 + (3 if draw["sel"] != -1 else 0)
        ev["cells_valid"] = 1
        for r in rows[7:7 + len(draw["planes"])]:
            ev["cells"].append([r[off + a:off + b].strip() for a, b in COLS])
        if len(draw["planes"]) > draw["h"] - 9:
            # the table does not fit: what is shown is a window of the rows (judged as such: cells_valid = 2)
            vis = draw["h"] - 9
            ev["cells"] = [r[off + a:off + b].strip() for r in rows[7:7 + vis] for a, b in [(0, 0)]][:0]
            ev["cells"] = [[r[off + a:off + b].strip() for a, b in COLS] for r in rows[7:7 + vis]]
            ev["cells_valid"] = 2 if vis > 0 else 0
    ev["stats_valid"], ev["stats_total"], ev["stats_most"] = 0, 0, 0
    if draw["tab"] == 3:
        tot = most = None
        for r in rows:
            m = re.search(r"Total Airplanes\s+All Time\s+(\d+)", r)
            if m:
                tot = int(m.group(1))
            m = re.search(r"Most Airplanes\s+(\S+ \S+|None)\s+(\d*)", r)
            if m:
                most = int(m.group(2)) if m.group(2) else 0
        if tot is not None and most is not None:
            ev["stats_valid"], ev["stats_total"], ev["stats_most"] = 1, tot, most
    # Map: the cells holding blue canvas dots (an aircraft's own dot and its heading wings are the only blue things drawn)
    ev["blue"] = []
    if draw["tab"] == 0 and fg is not None:
        for ri, r in enumerate(rows):
            for ci, ch in enumerate(r):
                if 0x2800 < ord(ch) <= 0x28ff and fg[ri][ci] == 4:
                    ev["blue"].append([ci, ri])
        ev["blue"] = ev["blue"][:600]
        # ... and the cells of the map holding text (labels are printed over the dots and can hide one)
        ev["text"] = map_text_cells(rows)
    ev["labels"] = []
    if draw["tab"] == 0:
        for p in draw["planes"]:
            if not p["cs"]:
                continue
            for ri, r in enumerate(rows):
                ci = r.find(p["cs"] + " (")
                if ci >= 0:
                    ev["labels"].append({"k": p["k"], "col": ci, "row": ri})
                    break
    return ev


def session(bindir, rng, tag, tier):
    rx = rng.choice([(52.0, 4.0), (-33.9, 151.2), (10.0, -75.0), (0.5, 0.5)])
    size = rng.choice([(30, 120), (40, 140), (24, 100), (50, 200)])
    srv = apps.FeedServer([{"segments": [], "interactive": True}])
    srv.start()
    # a third of the sessions run with a one-second expiry: aircraft leave, others arrive while fewer are tracked than before
    # (the totals count every newly added aircraft, whatever the largest simultaneous count was)
    expiry = rng.random() < 0.34
    places, place_args = make_places(rng, rx, tag)
    rd = apps.Radar(bindir, srv.port, ["--lat", str(rx[0]), "--long", str(rx[1])] + (["--filter-time", "1"] if expiry else []) + place_args, size=size)
    try:
        rd.wait_frames(2, 6)
        n_air = rng.randrange(1, 7)
        marks = []
        positioned_first = None
        for i in range(n_air):
            srv.push(aircraft(rng, rx, i % 4, with_position=rng.random() < 0.8))
            if positioned_first is None and LAST_AIRCRAFT[2]:
                positioned_first = (LAST_AIRCRAFT[0], LAST_AIRCRAFT[1])
            rd.wait_frames(rd.frame_count() + 4, 3)
        if not expiry and positioned_first is not None:
            # bring one aircraft close to the upper edge of the map, then to the lower one: everything in view is drawn
            lat_a = positioned_first[0]
            per_press = 0.005
            units_lat = 166.7 / max(math.cos(math.radians((lat_a + rx[0]) / 2)), 0.2)
            y0 = (lat_a - rx[0]) * units_lat
            for target, key in ((rng.uniform(382, 389), "Down"), (rng.uniform(-389, -382), "Up")):
                n = round(abs(target - y0) / (per_press * units_lat))
                if 0 < n < 900:
                    rd.send(apps.KEYS["F1"]); rd.wait_frames(rd.frame_count() + 1, 2)
                    rd.send(apps.KEYS["Enter"]); rd.wait_frames(rd.frame_count() + 1, 2)
                    for i in range(0, n, 100):
                        rd.send(apps.KEYS[key] * min(100, n - i))
                        rd.wait_frames(rd.frame_count() + 1, 2)
                    rd.wait_frames(rd.frame_count() + 2, 2)
                    marks.append(rd.frame_count())
            rd.send(apps.KEYS["Enter"]); rd.wait_frames(rd.frame_count() + 1, 2)
        if expiry:
            rd.send(apps.KEYS["F4"])
            rd.wait_frames(rd.frame_count() + 2, 3)
            marks.append(rd.frame_count())
            for rnd in range(rng.randrange(1, 3)):
                t0 = time.time()
                while time.time() - t0 < 2.6:
                    rd.wait_frames(rd.frame_count() + 1, 1)
                # what the screen shows after a silence in which aircraft expired and nothing else happened
                marks.append(rd.frame_count())
                for i in range(rng.randrange(1, n_air + 1)):
                    srv.push(aircraft(rng, rx, rng.randrange(4), with_position=rng.random() < 0.5))
                    rd.wait_frames(rd.frame_count() + 3, 3)
                rd.send(apps.KEYS["F4"])
                rd.wait_frames(rd.frame_count() + 2, 3)
                marks.append(rd.frame_count())
        seq = ["F3", "Down", "F4", "F2", "F1"]
        for _ in range(rng.randrange(4, 14)):
            seq.append(rng.choice(["+", "-", "Up", "Down", "Left", "Right", "Enter", "F1", "F2", "F3", "F4", "F1", "Tab", "Down", "l", "i", "t", "n"]))
        # long pans along one axis (the custom centre of each axis is set independently)
        pans = []
        for _ in range(rng.randrange(0, 3)):
            pans.append((rng.choice(("Up", "Down")), rng.randrange(40, 160)))
            pans.append((rng.choice(("Left", "Right")), rng.randrange(8, 40)))
        rng.shuffle(pans)
        pan_at = {rng.randrange(len(seq)): p for p in pans[:2]} if pans else {}
        for si, k in enumerate(seq):
            if si in pan_at:
                rd.send(apps.KEYS["F1"])
                rd.wait_frames(rd.frame_count() + 1, 3)
                key, cnt = pan_at[si]
                rd.send(apps.KEYS[key] * cnt)
                rd.wait_frames(rd.frame_count() + 3, 3)
                marks.append(rd.frame_count())
            if rng.random() < 0.15:
                srv.push(aircraft(rng, rx, rng.randrange(4)))
                rd.wait_frames(rd.frame_count() + 4, 3)
            rd.send(apps.KEYS[k])
            rd.wait_frames(rd.frame_count() + 2, 3)
            marks.append(rd.frame_count())
        if places:
            # the places are part of what is shown, not of the view: still there after a reset, on both tabs that draw them
            for k in ("F1", "Enter", "F2", "F1"):
                rd.send(apps.KEYS[k])
                rd.wait_frames(rd.frame_count() + 2, 3)
                marks.append(rd.frame_count())
        rd.send(apps.KEYS["q"])
        rd.wait_exit(4)
        snaps, snaps_fg = vt.snapshots_with_colour(rd.out, size[0], size[1])
        hook = rd.events()
        draws = {e["frame"]: e for e in hook if e.get("ev") == "draw"}
        out = [{"ev": "session_start", "tag": tag, "expiry": 1 if expiry else 0}]
        judged = set(marks)
        for e in hook:
            if e.get("ev") == "action":
                out.append({"ev": "action", "added": e["added"], "keys": e["keys"]})
            elif e.get("ev") == "coverage":
                out.append(e)
            elif e.get("ev") == "draw" and e["frame"] in judged and e["frame"] in snaps:
                d = e
                if expiry:
                    out.append({"ev": "expiry_possible"})
                ev = {"ev": "screen", "frame": d["frame"], "tab": d["tab"], "sel": d["sel"], "w": d["w"], "h": d["h"], "scale9": d["scale9"],
                      "lat": d["lat"], "long": d["long"], "clat": d["clat"], "clong": d["clong"], "planes": d["planes"]}
                ev.update(parse_screen(snaps[d["frame"]], d, snaps_fg.get(d["frame"])))
                if d["tab"] in (0, 1) and snaps_fg.get(d["frame"]) is not None:
                    # named places (Map and Coverage draw them alike)
                    ev["places"] = places
                    ev["plabels"] = find_places(snaps[d["frame"]], places, snaps_fg.get(d["frame"]))
                    if "text" not in ev:
                        ev["text"] = map_text_cells(snaps[d["frame"]])
                out.append(ev)
        return out
    finally:
        srv.stop()
        rd.cleanup()
        for i, a in enumerate(place_args):
            if a == "--airports":
                try:
                    os.remove(place_args[i + 1])
                except OSError:
                    pass


def crowded_session(bindir, rng, tag):
    """more aircraft than the Airplanes table has rows: the table shows a window around the selection"""
    rx = (52.0, 4.0)
    size = (24, 120)
    srv = apps.FeedServer([{"segments": [], "interactive": True}])
    srv.start()
    rd = apps.Radar(bindir, srv.port, ["--lat", str(rx[0]), "--long", str(rx[1])], size=size)
    try:
        rd.wait_frames(2, 6)
        marks = []
        for i in range(rng.randrange(18, 27)):
            srv.push(aircraft(rng, rx, i % 4, with_position=rng.random() < 0.6))
            rd.wait_frames(rd.frame_count() + 3, 3)
        rd.wait_frames(rd.frame_count() + 25, 6)
        rd.send(apps.KEYS["F3"]); rd.wait_frames(rd.frame_count() + 2, 3); marks.append(rd.frame_count())
        for k in ["Down"] * rng.randrange(14, 30) + ["Up"] * rng.randrange(1, 6) + ["Down"] * 3:
            rd.send(apps.KEYS[k]); rd.wait_frames(rd.frame_count() + 2, 3); marks.append(rd.frame_count())
        rd.send(apps.KEYS["q"]); rd.wait_exit(4)
        snaps, snaps_fg = vt.snapshots_with_colour(rd.out, size[0], size[1])
        out = [{"ev": "session_start", "tag": tag, "expiry": 0}]
        judged = set(marks)
        for e in apps.hook_events(rd):
            if e.get("ev") == "action":
                out.append({"ev": "action", "added": e["added"], "keys": e["keys"]})
            elif e.get("ev") == "draw" and e["frame"] in judged and e["frame"] in snaps:
                d = e
                ev = {"ev": "screen", "frame": d["frame"], "tab": d["tab"], "sel": d["sel"], "w": d["w"], "h": d["h"], "scale9": d["scale9"],
                      "lat": d["lat"], "long": d["long"], "clat": d["clat"], "clong": d["clong"], "planes": d["planes"]}
                ev.update(parse_screen(snaps[d["frame"]], d, snaps_fg.get(d["frame"])))
                out.append(ev)
        return out
    finally:
        srv.stop()
        rd.cleanup()


def bigcount_session(bindir, rng, tag, n):
    """one aircraft heard n times: the message count shown is the tracker's, however many digits it has"""
    rx = (52.0, 4.0)
    size = (12, 100)
    srv = apps.FeedServer([{"segments": [], "interactive": True}])
    srv.start()
    rd = apps.Radar(bindir, srv.port, ["--lat", str(rx[0]), "--long", str(rx[1])], size=size)
    try:
        rd.wait_frames(2, 6)
        rd.send(apps.KEYS["F3"]); rd.wait_frames(rd.frame_count() + 2, 3)
        addr = rng.randrange(1, 1 << 24)
        line = b"*" + bytes(track_checks.f_ident(rng, addr, "BIG" + str(rng.randrange(100, 999)))).hex().encode() + b";\n"
        srv.push(line * n)
        # (the client takes one line per turn of its loop, and waits 10 ms for input in each)
        t0 = time.time()
        target = rd.frame_count() + n
        while rd.frame_count() < target and time.time() - t0 < 60 + n / 25.0 and rd.poll() is None:
            rd.wait_frames(min(target, rd.frame_count() + 500), 10)
        rd.wait_frames(rd.frame_count() + 3, 3)
        marks = [rd.frame_count()]
        rd.send(apps.KEYS["q"]); rd.wait_exit(4)
        snaps, snaps_fg = vt.snapshots_with_colour(rd.out, size[0], size[1])
        out = [{"ev": "session_start", "tag": tag, "expiry": 0}]
        added = False
        for e in apps.hook_events(rd):
            if e.get("ev") == "action" and not added:
                out.append({"ev": "action", "added": e["added"], "keys": e["keys"]})      # (the first one: the others add nothing)
                added = True
            elif e.get("ev") == "draw" and e["frame"] in marks and e["frame"] in snaps:
                d = e
                ev = {"ev": "screen", "frame": d["frame"], "tab": d["tab"], "sel": d["sel"], "w": d["w"], "h": d["h"], "scale9": d["scale9"],
                      "lat": d["lat"], "long": d["long"], "clat": d["clat"], "clong": d["clong"], "planes": d["planes"]}
                ev.update(parse_screen(snaps[d["frame"]], d, snaps_fg.get(d["frame"])))
                out.append(ev)
        return out
    finally:
        srv.stop()
        rd.cleanup()


def run(prop, tier, seed, rep):
    rng = random.Random(seed * 1000003 + 18)
    res = core.run_mc("MC_RadarUI", workers=8, timeout=3000, cache=False,
                      env_extra={"GUARDS": "1", "MAXBURST": "3", "MAXSTEPS": "6" if tier == "quick" else "7", "TOUCH": "1", "REPLAY": "0"})
    rep.add_model(res, "MC_RadarUI (ViewOnly, StatsOK)")
    if not res["ok"]:
        rep.mismatch("C18", "screen|model", "view_only", {"kind": "model", "violated": res["violated"], "tail": res["output_tail"][-600:]})
    bindir = core.build_apps()
    n = 16 if tier == "quick" else 500
    seeds = [rng.getrandbits(32) for _ in range(n)]
    with cf.ThreadPoolExecutor(max_workers=12) as ex:
        results = list(ex.map(lambda i: session(bindir, random.Random(seeds[i]), f"s{i}", tier), range(n)))
    for i in range(1 if tier == "quick" else 8):
        results.append(crowded_session(bindir, random.Random(seeds[i] ^ 0x5EED), f"crowd{i}"))
    # a message count of four digits (quick) and of five (thorough: 10 005 lines take about two minutes)
    big = bigcount_session(bindir, random.Random(seeds[0] ^ 0xB16), "bigcount", 1003 if tier == "quick" else 10005)
    results.append(big)
    rep.extra["largest_message_count_shown"] = max((p["n"] for e in big if e["ev"] == "screen" for p in e["planes"]), default=0)
    events = [e for r in results for e in r]
    verdicts, st, tr = core.validate_events("Trace_Screen", events, prop, shards=8, boundary=lambda e: e["ev"] == "session_start")
    rep.add_trace_stats(st, tr, n)
    summary = {}
    for v in verdicts:
        ev = events[v["index"]]
        for owner, field in v["pairs"]:
            k = f"{owner}|{v['cls']}|{field}"
            summary.setdefault(k, [0, {k2: ev[k2] for k2 in ev if k2 not in ("planes",)}, ev.get("planes")])[0] += 1
            rep.mismatch(owner, v["cls"], field, {"kind": "screen", "event": ev})
    json.dump(summary, open(os.path.join(core.BUILD, f"last_{prop}_verdicts.json"), "w"), indent=1, sort_keys=True)
    if tier == "thorough":
        idx = next(i for i, e in enumerate(events) if e["ev"] == "screen" and e.get("cells_valid") == 1 and e["cells"])
        lo = max(j for j in range(idx) if events[j]["ev"] == "session_start")
        core.anti_vacuity(rep, "Trace_Screen", events[lo:idx + 1], [(idx - lo, lambda e: (e["cells"][0].__setitem__(9, e["cells"][0][9] + "1"), e)[1], "C18")],
                          boundary=lambda e: e["ev"] == "session_start", name="C18-selftest")
    # where the receiver position comes from with --gpsd: the system's only concurrency (Gpsd.tla; drift only)
    import gpsd_checks
    gpsd_checks.run_binding(rep, tier, seed)
    scr = [e for e in events if e["ev"] == "screen"]
    rep.extra.update({"sessions": n, "screens_judged": len(scr),
                      "coverage_folds_checked": sum(1 for e in events if e["ev"] == "coverage"),
                      "coverage_fold_drift": sum(1 for d in core.LAST_INFOS if d["what"] == "coverage"),
                      "table_screens_with_cells": sum(1 for e in scr if e["cells_valid"] == 1),
                      "scrolled_table_screens": sum(1 for e in scr if e["cells_valid"] == 2),
                      "table_rows_judged": sum(len(e["cells"]) for e in scr if e["cells_valid"] == 1),
                      "stats_screens": sum(1 for e in scr if e["stats_valid"] == 1),
                      "sessions_with_expiry": sum(1 for e in events if e["ev"] == "session_start" and e.get("expiry")),
                      "map_labels_judged": sum(len(e["labels"]) for e in scr),
                      "place_labels_judged": sum(len(e.get("plabels", [])) for e in scr),
                      "screens_with_places": sum(1 for e in scr if e.get("places")),
                      "screens_by_tab": {str(t): sum(1 for e in scr if e["tab"] == t) for t in range(5)}})
    rep.samples = [scr[0]] if scr else ["(none)"]
    rep.assumptions += ["the terminal model (drivers/vt.py) reconstructs the screen from the pty output at the hook's frame markers; cell extraction uses the table's fixed column offsets",
                        "vertical (Mercator) placement is checked for side and order only, not for exact proportion"]
