"""C20: build configurations agree (alloc-only vs std) and serialization round-trips.  The recorder exists twice
(separate cargo builds, so feature unification cannot merge them); both run the same seeded inputs and the trace
spec Trace_Config consumes events carrying both projections.  Tracker serde round trips are `serde` steps of
tracker histories judged by Trace_Tracker (owner C20)."""
import json
import os
import random
import subprocess

import core
import decode_checks
import gen
import pair_checks
import track_checks


def run_cmd(binary, args, payload):
    r = subprocess.run([binary] + args, input=payload, stdout=subprocess.PIPE, stderr=subprocess.PIPE, text=True, timeout=1800)
    if r.returncode != 0:
        raise core.ToolError(f"{binary} {args} failed: {r.stderr[-1500:]}")
    return [json.loads(l) for l in r.stdout.splitlines() if l.strip()]


def run(prop, tier, seed, rep):
    rng = random.Random(seed * 1000003 + 20)
    std = core.build_hx("std")
    alloc = core.build_hx("alloc")
    q = (lambda a, b: a if tier == "quick" else b)
    events = []
    # --- decode + text in both builds, serde round trip of every decoded frame ---------------------------
    ins = []
    for p in ("C02", "C04", "C07", "C08", "C10"):
        x = decode_checks.GENERATORS[p](random.Random(rng.getrandbits(32)), "quick")
        rng.shuffle(x)
        ins += x[:q(1500, 12000)]
    # one frame of every payload variant (every type code, every subtype of the types that have them, every BDS kind):
    # a representation that collapses two variants shows on a round trip of exactly those
    from gen import es_frame, rnd_frame, setf
    for df in (17, 18):
        for tc in range(32):
            for st in range(8):
                if tc == 31 and st < 2:
                    b = es_frame(rng, df, 31, st31=st)
                else:
                    b = es_frame(rng, df, tc)
                    setf(b, 37, 3, st)
                ins.append({"bytes": list(b)})
    for df in (20, 21):
        for first in (0x00, 0x10, 0x20, 0x30, 0xff):
            b = rnd_frame(rng, df); b[4] = first
            ins.append({"bytes": list(b)})
    payload = "\n".join(json.dumps(x, separators=(",", ":")) for x in ins) + "\n"
    es = run_cmd(std, ["decode", "--text", "--ops", "--serde"], payload)
    ea = run_cmd(alloc, ["decode", "--text", "--ops"], payload)
    if not (len(es) == len(ea) == len(ins)):
        raise core.ToolError("decode recorders disagree on the number of events")
    for a, b in zip(es, ea):
        s = {"out": a["out"], "outcome": a["outcome"], "text": a.get("text", [])}
        if "serde" in a:
            s["serde"] = a["serde"]
        if "serde_eq" in a:
            s["serde_eq"] = a["serde_eq"]
        events.append({"ev": "cdecode", "bytes": a["bytes"], "std": s,
                       "alloc": {"out": b["out"], "outcome": b["outcome"], "text": b.get("text", [])}})
    n_dec = len(events)
    # --- streams: several frames read one after the other through the build's own cursor type, truncated frames among them
    # (what a decode leaves behind in the reader must not depend on the build either: the next decode starts from it)
    sins = []
    for _ in range(q(600, 12000)):
        parts = []
        for _k in range(rng.randrange(1, 4)):
            df = rng.choice(sorted(gen.SUPPORTED))
            b = es_frame(rng, df) if df in (17, 18) else rnd_frame(rng, df)
            r = rng.random()
            if r < 0.35:
                b = b[:rng.randrange(0, len(b))]                      # cut short
            elif r < 0.45:
                b = b + bytearray(rng.getrandbits(8) for _ in range(rng.randrange(1, 4)))
            parts.append(bytes(b))
        sins.append({"bytes": list(b"".join(parts)), "n": len(parts) + 1})
    # ... in particular the formats whose structure ends before the parity field (DF19, DF20), cut at every length, followed
    # by something decodable
    for df in (19, 20, 21, 17, 11):
        for cut in range(0, 15):
            b = rnd_frame(rng, df)[:cut]
            tail = rnd_frame(rng, rng.choice((11, 4, 17)))
            sins.append({"bytes": list(bytes(b) + bytes(tail)), "n": 3})
    payload = "\n".join(json.dumps(x, separators=(",", ":")) for x in sins) + "\n"
    ss = run_cmd(std, ["stream"], payload)
    sa = run_cmd(alloc, ["stream"], payload)
    if not (len(ss) == len(sa) == len(sins)):
        raise core.ToolError("stream recorders disagree on the number of events")
    for a, b in zip(ss, sa):
        events.append({"ev": "cstream", "bytes": a["bytes"], "std": a["outs"], "alloc": b["outs"]})
    n_stream = len(sins)
    # --- pairing ----------------------------------------------------------------------------------------
    pins = pair_checks.inputs(random.Random(rng.getrandbits(32)), "quick")
    rng.shuffle(pins)
    pins = pins[:q(3000, 40000)]
    payload = "\n".join(json.dumps(x) for x in pins) + "\n"
    ps = run_cmd(std, ["pair"], payload)
    pa = run_cmd(alloc, ["pair"], payload)
    for a, b in zip(ps, pa):
        events.append({"ev": "cpair", "first": a["first"], "second": a["second"], "std": a["out"], "alloc": b["out"]})
    n_pair = len(events) - n_dec - n_stream
    # --- tracker histories (no clock, no serde: the alloc build has neither) --------------------------------
    hists = []
    for i in range(q(25, 400)):
        hists.append(track_checks.random_history(rng, f"c{i}", rng.choice((60, 200)), rng.choice((1, 2, 5)), with_time=False, with_serde=False))
    # repeated identical reports (the std build carries timestamps inside the compared coordinates)
    for i in range(q(10, 100)):
        h = track_checks.random_history(rng, f"d{i}", 40, 2, with_time=False, with_serde=False)
        steps = []
        for s in h["steps"]:
            steps.append(s)
            if s["op"] == "frame" and rng.random() < 0.5:
                steps.append(s)
                if rng.random() < 0.3:
                    steps.append(s)
        h["steps"] = steps
        hists.append(h)
    payload = "\n".join(json.dumps(h, separators=(",", ":")) for h in hists) + "\n"
    ts = run_cmd(std, ["track"], payload)
    ta = run_cmd(alloc, ["track"], payload)
    if len(ts) != len(ta):
        raise core.ToolError("track recorders disagree on the number of events")
    n_track = 0
    for a, b in zip(ts, ta):
        if a["ev"] == "action":
            events.append({"ev": "ctrack", "bytes": a["bytes"], "std": {"added": a["added"], "outcome": a["outcome"], "planes": a["planes"]},
                           "alloc": {"added": b["added"], "outcome": b["outcome"], "planes": b["planes"]}})
            n_track += 1
    verdicts, st, tr = core.validate_events("Trace_Config", events, prop)
    rep.add_trace_stats(st, tr, len(events))
    summary = {}
    for v in verdicts:
        ev = events[v["index"]]
        for owner, field in v["pairs"]:
            k = f"{owner}|{v['cls']}|{field}"
            summary.setdefault(k, [0, v["index"]])[0] += 1
            w = {"kind": "config", "event": {k2: ev[k2] for k2 in ev if k2 not in ("std", "alloc")}}
            if ev["ev"] == "ctrack":
                w["note"] = "tracker step on which the two builds differ"
                sa = {p["addr"]: p for p in ev["std"]["planes"]}
                aa = {p["addr"]: p for p in ev["alloc"]["planes"]}
                w["differing_records"] = [{"std": sa.get(k3), "alloc": aa.get(k3)} for k3 in set(sa) | set(aa) if sa.get(k3) != aa.get(k3)][:2]
            else:
                w["std"] = ev["std"]
                w["alloc"] = ev["alloc"]
            rep.mismatch(owner, v["cls"], field, w)
    json.dump(summary, open(os.path.join(core.BUILD, f"last_{prop}_verdicts.json"), "w"), indent=1, sort_keys=True)
    if tier == "thorough":
        idx = next(i for i, e in enumerate(events) if e["ev"] == "cdecode" and e["alloc"]["out"].get("ok") == 1)
        core.anti_vacuity(rep, "Trace_Config", events[:idx + 10], [(idx, lambda e: (e["alloc"]["out"].update(crc=e["alloc"]["out"]["crc"] ^ 1), e)[1], "C20")], name="C20-selftest")
    # --- tracker serde round trips: histories with serde steps, judged by Trace_Tracker ----------------------
    shists = [track_checks.random_history(rng, f"s{i}", rng.choice((60, 150)), rng.choice((1, 3, 6)), with_time=False, with_serde=True)
              for i in range(q(20, 300))]
    # addresses at the corners of the address space (all zeros, all ones and their one-bit neighbours) through the round trip
    shists += [track_checks.neighbour_history(rng, f"sn{i}", with_serde=True, base=b) for i, b in enumerate((0x000000, 0xFFFFFF))]
    for h in shists:                    # make sure every history contains several serde steps
        for j in range(5, len(h["steps"]), 9):
            h["steps"].insert(j, {"op": "serde"})
    groups = track_checks.record(std, shists)
    sev = [e for g in groups for e in g]
    v2, st2, tr2 = core.validate_events("Trace_Tracker", sev, prop + "-serde", shards=core.MAX_JVMS, boundary=lambda e: e["ev"] == "reset")
    rep.add_trace_stats(st2, tr2, len(shists))
    for v in v2:
        for owner, field in v["pairs"]:
            rep.mismatch(owner, v["cls"], field, {"kind": "track-serde", "event_index": v["index"]})
    rep.extra.update({"decode_events_both_builds": n_dec, "streams_both_builds": n_stream, "pair_events_both_builds": n_pair, "tracker_steps_both_builds": n_track,
                      "frames_round_tripped_through_serde": sum(1 for e in events[:n_dec] if "serde" in e["std"]),
                      "tracker_serde_round_trips": sum(1 for e in sev if e["ev"] == "serde")})
    rep.samples = [{"ev": "cdecode", "bytes": events[0]["bytes"], "std": events[0]["std"]["out"], "alloc": events[0]["alloc"]["out"]}]
    rep.assumptions += ["the two recorders are separate cargo builds of the same harness source (features std+serde vs alloc)",
                        "floating-point results are compared after scaling to integers (micro-degrees, metres, milli-knots)"]
