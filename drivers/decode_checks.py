"""Checks decided by validating `decode` events against spec/Frame.tla (Trace_Decode):
C01 C02 C03 C04 C06 C08 C09 C10.  A check for property P runs P's generators; every field of every
event is judged, but only disagreements owned by P (Frame!Owner) make P's check fail."""
import json
import random

import core
import gen
from gen import setf, getf, es_frame, rnd_frame, field_sweep, walking_one, with_parity


def q(tier, quick, thorough):
    return quick if tier == "quick" else thorough


# ---------------------------------------------------------------------------------------------
# generators per property

def inputs_c02(rng, tier):
    fr = []
    k = q(tier, 4, 48)
    for df in range(32):
        for n in range(33):
            for _ in range(k):
                fr.append(rnd_frame(rng, df, n))
    # type 31 acceptance gate: every combination of the six reserved bits and the version field
    for df in (17, 18):
        for st in (0, 1):
            for combo in range(512):
                b = es_frame(rng, df, 31, valid_version=False, st31=st)
                setf(b, 40, 2, combo & 3)
                setf(b, 44, 2, (combo >> 2) & 3)
                setf(b, 56, 2, (combo >> 4) & 3)
                setf(b, 72, 3, (combo >> 6) & 7)
                fr.append(b)
    for _ in range(q(tier, 300, 5000)):                      # subtypes 2..7 are never rejected
        fr.append(es_frame(rng, rng.choice((17, 18)), 31, valid_version=False, st31=rng.randrange(2, 8)))
    # bytes after the frame never influence the result: same frame, different tails
    for _ in range(q(tier, 300, 6000)):
        df = rng.choice(sorted(gen.SUPPORTED))
        b = es_frame(rng, df) if df in (17, 18) else rnd_frame(rng, df)
        fr.append(b)
        for _ in range(2):
            fr.append(b + bytearray(rng.getrandbits(8) for _ in range(rng.randrange(1, 19))))
    # every frame shape (format x payload variant) at exactly its length, one byte short, and with bytes after it; the
    # events tagged "tail" carry the same frame as the event before them and must decode identically
    shapes = []
    for df in sorted(gen.SUPPORTED):
        if df in (17, 18):
            for tc in range(32):
                for st in ((0, 1, 2, 5) if tc == 31 else (None,)):
                    shapes.append(lambda df=df, tc=tc, st=st: es_frame(rng, df, tc, st31=st))
        elif df in (20, 21):
            for first in (0x00, 0x10, 0x20, 0x30, 0xFF):
                def mk(df=df, first=first):
                    b = rnd_frame(rng, df); b[4] = first; return b
                shapes.append(mk)
        elif df in (4, 5):
            for drv in (0, 1, 4, 5, 9, 31):
                def mk(df=df, drv=drv):
                    b = rnd_frame(rng, df); setf(b, 8, 5, drv); return b
                shapes.append(mk)
        else:
            shapes.append(lambda df=df: rnd_frame(rng, df))
    tails = []
    for mk in shapes:
        for _ in range(q(tier, 2, 12)):
            b = mk()
            fr.append(b[:-1])
            fr.append(b)
            for n in (1, 3, rng.randrange(2, 19)):
                tails.append(len(fr))
                fr.append(b + bytearray(rng.getrandbits(8) for _ in range(n)))
    # truncated long frames of every shape (one byte short down to the bare header)
    for _ in range(q(tier, 40, 400)):
        for df in sorted(gen.LONG):
            b = es_frame(rng, df) if df in (17, 18) else rnd_frame(rng, df)
            if df in (20, 21):
                b[4] = rng.choice((0x00, 0x10, 0x20, rng.getrandbits(8)))
            fr.append(b[:rng.randrange(1, 14)])
    out = gen.as_inputs(fr)
    for i in tails:
        out[i]["tag"] = "tail"
    return out


def inputs_c03(rng, tier):
    fr = []
    # single-byte sweeps with the rest zero: reads out every table entry at every byte position
    for pos in range(1, 14):
        for v in range(256):
            b = bytearray(14)
            b[0] = 0x80                       # DF16: no payload-dependent rejection
            b[pos] = v
            fr.append(b)
    for v in range(0x80, 0x88):
        b = bytearray(14)
        b[0] = v
        fr.append(b)
    for pos in range(1, 7):
        for v in range(256):
            b = bytearray(7)
            b[pos] = v                        # DF0
            fr.append(b)
    for v in range(8):
        b = bytearray(7)
        b[0] = v
        fr.append(b)
    # the same with random context
    for _ in range(q(tier, 2, 20)):
        for pos in range(1, 14):
            base = rnd_frame(rng, 16)
            for v in range(0, 256, q(tier, 5, 1)):
                b = bytearray(base)
                b[pos] = v
                fr.append(b)
    # random frames of every supported format, and frames with valid parity (0 / IC / address expected)
    for df in sorted(gen.SUPPORTED):
        for _ in range(q(tier, 40, 1500)):
            b = es_frame(rng, df) if df in (17, 18) else rnd_frame(rng, df)
            fr.append(b)
            overlay = 0 if df in (17, 18, 19) or df >= 24 else rng.getrandbits(7) if df == 11 else rng.getrandbits(24)
            fr.append(with_parity(b, overlay))
    # corruptions of valid squitters: up to five bit flips, bursts of up to 24 bits
    for _ in range(q(tier, 1500, 60000)):
        b = with_parity(es_frame(rng, rng.choice((17, 18)), rng.choice((0, 4, 11, 19, 28, 29))))
        c = bytearray(b)
        if rng.random() < 0.5:
            for i in rng.sample(range(112), rng.randrange(1, 6)):
                c[i // 8] ^= 0x80 >> (i % 8)
        else:
            ln = rng.randrange(1, 25)
            st = rng.randrange(0, 113 - ln)
            pat = rng.getrandbits(ln) | 1 | (1 << (ln - 1))
            for k in range(ln):
                if (pat >> k) & 1:
                    i = st + k
                    c[i // 8] ^= 0x80 >> (i % 8)
        fr.append(c)
    return gen.as_inputs(fr)


def inputs_c04(rng, tier):
    fr = []
    ctx = q(tier, 1, 6)
    for df, fields in gen.HDR_FIELDS.items():
        dfs = [df] if df != 24 else list(range(24, 32))
        for d in dfs:
            for name, (off, w) in fields.items():
                if w > 30:
                    continue
                mk = (lambda d=d: es_frame(rng, d)) if d in (17, 18) else (lambda d=d: rnd_frame(rng, d))
                fr += field_sweep(rng, mk, off, w, contexts=ctx, full_upto=8)
    # every header value combined with every payload type
    for df in (17, 18):
        for tc in range(32):
            for c in range(8):
                for _ in range(q(tier, 3, 40)):
                    fr.append(es_frame(rng, df, tc, ca=c))
    for df in (20, 21):
        for first in (0x00, 0x10, 0x20, 0x30, 0xFF):
            for _ in range(q(tier, 30, 600)):
                b = rnd_frame(rng, df)
                b[4] = first
                fr.append(b)
    # walking one over the whole frame for one random frame of each shape
    for df in sorted(gen.SUPPORTED):
        shapes = range(32) if df in (17, 18) else [None]
        for tc in shapes:
            mk = (lambda: es_frame(rng, df, tc)) if df in (17, 18) else (lambda: rnd_frame(rng, df))
            keep = [(0, 5)] + ([(32, 5)] if df in (17, 18) else [])
            fr += walking_one(rng, mk, 8 * gen.flen(df), keep=keep)
    return gen.as_inputs(fr)


def inputs_c06(rng, tier):
    fr = []
    ctx = q(tier, 1, 8)
    for df in (0, 4, 16, 20):
        fr += field_sweep(rng, lambda df=df: rnd_frame(rng, df), 19, 13, contexts=ctx)
    dfs = (17,) if tier == "quick" else (17, 18)
    for df in dfs:
        for tc in list(range(9, 19)) + [20, 21, 22]:
            fr += field_sweep(rng, lambda df=df, tc=tc: es_frame(rng, df, tc), 40, 12, contexts=ctx)
    return gen.as_inputs(fr)


def inputs_c08(rng, tier):
    fr = []
    carriers = []
    for df in (17, 18):
        for tc in (1, 2, 3, 4):
            carriers.append((lambda df=df, tc=tc: es_frame(rng, df, tc), 40))

    def mb(df):
        b = rnd_frame(rng, df)
        b[4] = 0x20
        return b
    for df in (20, 21):
        carriers.append((lambda df=df: mb(df), 40))

    def put_chars(b, off, codes):
        for k, c in enumerate(codes):
            setf(b, off + 6 * k, 6, c)
    letters = list(range(1, 27)) + list(range(48, 58))
    for mk, off in carriers:
        # every code at every position, the rest letters/digits
        for pos in range(8):
            for code in range(64):
                b = mk()
                cs = [rng.choice(letters) for _ in range(8)]
                cs[pos] = code
                put_chars(b, off, cs)
                fr.append(b)
        # all pairs of positions with two distinct marker codes
        for i in range(8):
            for j in range(i + 1, 8):
                for _ in range(q(tier, 1, 6)):
                    b = mk()
                    cs = [rng.choice(letters) for _ in range(8)]
                    cs[i], cs[j] = rng.sample(range(64), 2)
                    put_chars(b, off, cs)
                    fr.append(b)
        # padded callsigns (trailing / leading / interior spaces) and random strings
        for _ in range(q(tier, 60, 1500)):
            b = mk()
            n = rng.randrange(0, 9)
            cs = [rng.choice(letters) for _ in range(n)] + [32] * (8 - n)
            if rng.random() < 0.2:
                rng.shuffle(cs)
            put_chars(b, off, cs)
            fr.append(b)
        for _ in range(q(tier, 60, 1500)):
            b = mk()
            put_chars(b, off, [rng.randrange(64) for _ in range(8)])
            fr.append(b)
    # all type/category values
    for df in (17, 18):
        for tc in (1, 2, 3, 4):
            for cat in range(8):
                for _ in range(q(tier, 2, 20)):
                    b = es_frame(rng, df, tc)
                    setf(b, 37, 3, cat)
                    fr.append(b)
    return gen.as_inputs(fr)


def inputs_c09(rng, tier):
    fr = []
    ctx = q(tier, 1, 8)
    # the same code in all three carriers, consecutively (so that carriers can be compared)
    for code in range(8192):
        for _ in range(ctx):
            b = rnd_frame(rng, 5); setf(b, 19, 13, code); fr.append(b)
            b = rnd_frame(rng, 21); setf(b, 19, 13, code); fr.append(b)
            b = es_frame(rng, 17, 28); setf(b, 43, 13, code); fr.append(b)
    for df in (17, 18):
        for st in range(8):
            for es in range(8):
                for _ in range(q(tier, 2, 20)):
                    b = es_frame(rng, df, 28); setf(b, 37, 3, st); setf(b, 40, 3, es); fr.append(b)
    return gen.as_inputs(fr)


def inputs_c10(rng, tier):
    fr = []
    ctx = q(tier, 1, 6)
    carriers = [(17, None)] + [(18, cf) for cf in range(8)]
    tcs_of = {"surface": [5, 6, 7, 8], "airpos": list(range(9, 19)) + [20, 21, 22], "tss": [29]}
    for kind, tcs in tcs_of.items():
        for name, (off, w) in gen.ME_FIELDS[kind].items():
            for (df, cf) in carriers:
                # all type codes for DF17; one random type code per control-field type for DF18
                use = tcs if df == 17 else [rng.choice(tcs)]
                if kind == "airpos" and name == "alt":
                    continue                           # C06's sweep
                for tc in use:
                    fr += field_sweep(rng, lambda: es_frame(rng, df, tc, ca=cf), 32 + off, w,
                                      contexts=ctx, full_upto=12 if df == 17 and tc in (5, 9, 11, 20, 29) else 4)
    for kind, st in (("opair", 0), ("opsurf", 1)):
        for name, (off, w) in gen.ME_FIELDS[kind].items():
            if name in ("st", "ccres0", "ccres1", "omres", "ver"):
                continue                               # gate bits: C02's grid
            for (df, cf) in carriers:
                fr += field_sweep(rng, lambda: es_frame(rng, df, 31, ca=cf, st31=st), 32 + off, w, contexts=ctx, full_upto=8)
        for ver in range(3):
            for _ in range(q(tier, 20, 300)):
                b = es_frame(rng, 17, 31, st31=st); setf(b, 72, 3, ver); fr.append(b)
    for name, (off, w) in gen.MB_FIELDS["dlc"].items():
        for df in (20, 21):
            def mk(df=df):
                b = rnd_frame(rng, df); b[4] = 0x10; return b
            fr += field_sweep(rng, mk, 32 + off, w, contexts=ctx, full_upto=7)
    # dispatch: every type code x subtype, every first MB byte
    for df in (17, 18):
        for tc in range(32):
            for st in range(8):
                for _ in range(q(tier, 2, 30)):
                    b = es_frame(rng, df, tc); setf(b, 37, 3, st)
                    if tc == 31 and st in (0, 1):
                        b = es_frame(rng, df, 31, st31=st)
                    fr.append(b)
    for df in (20, 21):
        for first in range(256):
            b = rnd_frame(rng, df); b[4] = first; fr.append(b)
    return gen.as_inputs(fr)


def inputs_c01(rng, tier):
    fr = []
    k = q(tier, 6, 200)
    for df in range(32):
        for n in range(33):
            for _ in range(k):
                fr.append(rnd_frame(rng, df, n))
    for _ in range(q(tier, 1500, 60000)):
        df = rng.choice((17, 18))
        fr.append(es_frame(rng, df, valid_version=rng.random() < 0.7))
    # every value of every field in every carrier: the field sweeps of the other properties (each decoded frame is
    # also rendered, Debug-printed and its velocity computed)
    for df in (0, 4, 16, 20):
        fr += field_sweep(rng, lambda df=df: rnd_frame(rng, df), 19, 13)
    for df in (5, 21):
        fr += field_sweep(rng, lambda df=df: rnd_frame(rng, df), 19, 13)
    for tc in (9, 18, 20) if tier == "quick" else list(range(9, 19)) + [20, 21, 22]:
        fr += field_sweep(rng, lambda tc=tc: es_frame(rng, rng.choice((17, 18)), tc), 40, 12)
    fr += field_sweep(rng, lambda: es_frame(rng, 17, 28), 43, 13)
    # the complete type-31 acceptance grid (every reserved-bit / version combination): whatever is accepted is rendered
    fr += [bytearray(i["bytes"]) for i in inputs_c02(rng, "quick") if len(i["bytes"]) >= 5 and (i["bytes"][0] >> 3) in (17, 18)
           and (i["bytes"][4] >> 3) == 31]
    for p in ("C07", "C08", "C10", "C04"):
        x = [bytearray(i["bytes"]) for i in GENERATORS_LATE[p](rng, "quick")]
        rng.shuffle(x)
        fr += x[:q(tier, 6000, 60000)]
    # extreme field values in every payload
    for df in sorted(gen.SUPPORTED):
        for fill in (0x00, 0xFF):
            for n in (7, 14, 32):
                b = bytearray([fill] * n); setf(b, 0, 5, df); fr.append(b)
                if df in (17, 18):
                    for tc in range(32):
                        c = bytearray(b); setf(c, 32, 5, tc); fr.append(c)
    return gen.as_inputs(fr)


def inputs_c07(rng, tier):
    fr = []
    V = gen.ME_FIELDS["vel"]
    ctx = q(tier, 1, 4)

    def vel(df=17, st=None):
        b = es_frame(rng, df, 19)
        if st is not None:
            setf(b, 37, 3, st)
        return b
    # raw fields: every value of every field, in every subtype, both carriers
    for df in (17, 18):
        for st in range(8):
            for name, (off, w) in V.items():
                if name == "st":
                    continue
                full = 11 if (df == 17 and st in (1, 3)) else 5
                fr += field_sweep(rng, lambda: vel(df, st), 32 + off, w, contexts=ctx, full_upto=full)
    # vertical rate with its sign and source: all 2^11 codes; GNSS difference: all 2^8 codes
    for st in (1, 2, 3):
        for code in range(2048):
            b = vel(17, st); setf(b, 32 + 35, 1, code >> 10); setf(b, 32 + 36, 10, code & 1023); fr.append(b)
        for code in range(256):
            b = vel(17, st); setf(b, 32 + 48, 8, code); fr.append(b)
    # airspeed / heading codes with their status bits
    for st in (3, 4):
        for code in range(2048):
            b = vel(17, st); setf(b, 32 + 13, 11, code); fr.append(b)
            b = vel(17, st); setf(b, 32 + 24, 11, code); fr.append(b)
    # derived velocity: direction bits x component lattice (thorough: all 2^22 combinations)
    if tier == "quick":
        lat = sorted({0, 1, 2, 3, 4, 511, 512, 513, 1021, 1022, 1023} | {rng.randrange(1024) for _ in range(24)})
        for st in (1, 2):
            for dew in (0, 1):
                for dns in (0, 1):
                    for vew in lat:
                        for vns in lat:
                            b = vel(17, st)
                            setf(b, 32 + 13, 1, dew); setf(b, 32 + 14, 10, vew); setf(b, 32 + 24, 1, dns); setf(b, 32 + 25, 10, vns)
                            if rng.random() < 0.9:
                                setf(b, 32 + 37, 9, rng.randrange(1, 512))
                            fr.append(b)
    else:
        for combo in range(1 << 22):
            b = vel(17, 1 if rng.random() < 0.5 else 2)
            setf(b, 32 + 13, 22, combo)
            if rng.random() < 0.97:
                setf(b, 32 + 37, 9, rng.randrange(1, 512))
            fr.append(b)
    # subtypes without a derived velocity, and "no information" codes
    for st in (0, 3, 4, 5, 6, 7):
        for _ in range(q(tier, 100, 2000)):
            fr.append(vel(rng.choice((17, 18)), st))
    for st in (1, 2):
        for _ in range(q(tier, 200, 4000)):
            b = vel(rng.choice((17, 18)), st)
            which = rng.randrange(3)
            if which == 0:
                setf(b, 32 + 14, 10, 0)
            elif which == 1:
                setf(b, 32 + 25, 10, 0)
            else:
                setf(b, 32 + 37, 9, 0)
            fr.append(b)
    return gen.as_inputs(fr)


GENERATORS_LATE = {"C04": inputs_c04, "C07": inputs_c07, "C08": inputs_c08, "C10": inputs_c10}
GENERATORS = {"C01": inputs_c01, "C07": inputs_c07, "C02": inputs_c02, "C03": inputs_c03, "C04": inputs_c04, "C06": inputs_c06,
              "C08": inputs_c08, "C09": inputs_c09, "C10": inputs_c10}

EXHAUSTIVE_THOROUGH = {"C07": "all 2^22 combinations of direction bits and 10-bit velocity components (derived velocity)"}
EXHAUSTIVE = {"C06": "all 8192 13-bit codes in DF0/4/16/20 and all 4096 12-bit codes in each of the 13 type codes (DF17)",
              "C09": "all 8192 identity codes in DF5, DF21 and type 28"}


def trim(ev):
    e = dict(ev)
    if "text" in e:
        e["text"] = e["text"][:3]
    return e


STEP_D = {"C03": "MC_Crc", "C06": "MC_ModeAC", "C09": "MC_ModeAC"}


def run(prop, tier, seed, rep, extra_inputs=None):
    rng = random.Random(seed * 1000003 + int(prop[1:]))
    if prop in STEP_D:
        # Step D: lemmas about the specification's own operators (independent of /repo, cached by the hash of spec/)
        res = core.run_mc(STEP_D[prop], workers=8, timeout=3000, xmx="8g")
        rep.add_model(res, STEP_D[prop])
        if not res["ok"]:
            raise core.ToolError(f"{STEP_D[prop]} fails on the specification itself: {res['violated']} {res['output_tail'][-400:]}")
    if prop in ("C02", "C04", "C10"):
        # Level I of the decoder: deku's bit machine and the read programs of every shape (DekuBits.tla) - its Level-A
        # lemmas by TLC, its predicted read/seek calls against the real decoder's (drift only)
        import bits_checks
        bits_checks.run_binding(rep, random.Random(seed * 7 + 1))
    inputs = GENERATORS[prop](rng, tier)
    # whatever the property's own generator aims at: one frame of every shape the decoder distinguishes
    import bits_checks
    inputs += [{"bytes": list(b)} for b in bits_checks.shape_frames(random.Random(seed * 13 + 5))]
    if prop in ("C07", "C01"):
        inputs += [{"bytes": list(b)} for b in near_integer_speed_frames(random.Random(seed * 17 + 3), 400 if tier == "quick" else 6000)]
    if extra_inputs:
        inputs += extra_inputs
    hx = core.build_hx("std")
    args = ["decode"] + (["--ops"] if prop in ("C01", "C07") else [])
    if len(inputs) > 400000:
        return run_batched(prop, tier, rep, hx, args, inputs)
    events = core.run_hx(hx, args, inputs)
    if len(events) != len(inputs):
        raise core.ToolError(f"recorder returned {len(events)} events for {len(inputs)} inputs")
    if prop == "C04":
        import subprocess
        r = subprocess.run([hx, "icao"], stdout=subprocess.PIPE, text=True, timeout=600)
        if r.returncode != 0:
            raise core.ToolError("hx icao failed")
        icao = json.loads(r.stdout)
        events.append(icao)
        inputs.append({"bytes": []})
        rep.extra["address_texts_round_tripped"] = icao["checked"]
    verdicts, st, tr = core.validate_events("Trace_Decode", events, prop)
    rep.add_trace_stats(st, tr, len(events))
    summary = {}
    for v in verdicts:
        ev = events[v["index"]]
        if ev["ev"] == "icao":
            for owner, field in v["pairs"]:
                rep.mismatch(owner, v["cls"], field, {"kind": "icao", "event": {k: ev[k] for k in ("failures", "first_failure")}})
            continue
        for owner, field in v["pairs"]:
            k = f"{owner}|{v['cls']}|{field}"
            summary.setdefault(k, [0, bytes(ev["bytes"]).hex(), ev.get("out")])[0] += 1
            rep.mismatch(owner, v["cls"], field, {"kind": "decode", "bytes": ev["bytes"], "hex": bytes(ev["bytes"]).hex(),
                                                  "observed": ev.get("out"), "outcome": ev.get("outcome")})
    import os
    json.dump(summary, open(os.path.join(core.BUILD, f"last_{prop}_verdicts.json"), "w"), indent=1, sort_keys=True)
    events = [e for e in events if e["ev"] == "decode"]
    # the other decode path: acceptance (C02), checksum (C03), every field (its owner) and totality (C01) when the frame comes
    # from a reader that returns short reads, sits far into a stream, or is followed by another frame
    reader_path_checksums(rng, tier, rep, hx)
    if tier == "thorough":
        selftest(prop, rep, events)
    distinct = len({bytes(e["bytes"]) for e in events})
    accepted = sum(1 for e in events if e["out"].get("ok") == 1)
    rep.extra.update({"events": len(events), "distinct_inputs": distinct, "accepted_frames": accepted,
                      "rejected_frames": len(events) - accepted})
    if tier == "thorough" and prop in EXHAUSTIVE_THOROUGH:
        rep.exhaustive = True
        rep.extra["exhaustive_over"] = EXHAUSTIVE_THOROUGH[prop]
    if prop in EXHAUSTIVE:
        rep.exhaustive = True
        rep.extra["exhaustive_over"] = EXHAUSTIVE[prop]
    rep.samples = [trim(events[i]) for i in (0, len(events) // 2, len(events) - 1)]
    rep.assumptions += ["TLC evaluates spec/Frame.tla (written from the standards' bit assignments) on the recorded bytes of every event",
                        "projection code in harness/hx/src/project.rs only renames fields returned by the library"]
    return events


def run_batched(prop, tier, rep, hx, args, inputs, size=250000):
    """large runs: record and validate slice by slice so that memory stays bounded"""
    total = accepted = 0
    summary = {}
    first = None
    for off in range(0, len(inputs), size):
        chunk = inputs[off:off + size]
        events = core.run_hx(hx, args, chunk, timeout=3000)
        if len(events) != len(chunk):
            raise core.ToolError("recorder lost events")
        verdicts, st, tr = core.validate_events("Trace_Decode", events, f"{prop}-b{off // size}")
        rep.add_trace_stats(st, tr, len(events))
        for v in verdicts:
            ev = events[v["index"]]
            for owner, field in v["pairs"]:
                k = f"{owner}|{v['cls']}|{field}"
                summary.setdefault(k, [0, bytes(ev["bytes"]).hex(), ev.get("out")])[0] += 1
                rep.mismatch(owner, v["cls"], field, {"kind": "decode", "bytes": ev["bytes"], "hex": bytes(ev["bytes"]).hex(),
                                                      "observed": ev.get("out"), "outcome": ev.get("outcome")})
        total += len(events)
        accepted += sum(1 for e in events if e["out"].get("ok") == 1)
        if first is None:
            first = [trim(events[0]), trim(events[-1])]
        del events
    import os
    json.dump(summary, open(os.path.join(core.BUILD, f"last_{prop}_verdicts.json"), "w"), indent=1, sort_keys=True)
    rep.extra.update({"events": total, "accepted_frames": accepted, "rejected_frames": total - accepted, "batched": True})
    if tier == "thorough" and prop in EXHAUSTIVE_THOROUGH:
        rep.exhaustive = True
        rep.extra["exhaustive_over"] = EXHAUSTIVE_THOROUGH[prop]
    rep.samples = first
    rep.assumptions += ["TLC evaluates spec/Frame.tla on the recorded bytes of every event"]


CORRUPT = {"C01": ("outcome", lambda e: e.update(outcome="panic") or e), "C02": ("ok", None), "C03": ("crc", None), "C04": ("aa", None),
           "C06": ("ac", None), "C07": ("vr", None), "C08": ("cat", None), "C09": ("id", None), "C10": ("lat", None)}


def selftest(prop, rep, events):
    """corrupt one recorded field owned by this property in a recorded event and require TLC to flag that event"""
    field, special = CORRUPT[prop]
    sample = [e for e in events if e["ev"] == "decode"]
    idx = None
    for i, e in enumerate(sample):
        if special is not None and e["outcome"] == "ok":
            idx = i
            break
        if special is None and field in e["out"] and e["out"].get("ok") == 1:
            idx = i
            break
    if idx is None:
        raise core.ToolError(f"anti-vacuity: no event carries field {field}")

    def mut(e):
        if special is not None:
            return special(e)
        if field == "ok":
            e["out"] = {"ok": 0}
        else:
            e["out"][field] = e["out"][field] ^ 1
        return e
    lo = max(0, idx - 5)
    core.anti_vacuity(rep, "Trace_Decode", sample[lo:idx + 40], [(idx - lo, mut, prop)], name=f"{prop}-selftest")


def near_integer_speed_frames(rng, limit):
    """ground-speed reports whose speed is an integer, or lies just below / above one (a^2 + b^2 = N^2, N^2 - 1, N^2 + 1),
    subsonic and supersonic: where a narrower float or another rounding of the norm shows"""
    import math
    cand = {1: [], 2: []}
    for a in range(0, 1023):
        for b_ in range(a, 1023):
            q2 = a * a + b_ * b_
            for st, scale in ((1, 1), (2, 4)):
                s2 = scale * scale * q2                  # the speed squared, in kt^2
                n = math.isqrt(s2)
                if n * n == s2 or (n + 1) * (n + 1) == s2 + 1 or n * n == s2 - 1:
                    cand[st].append((a, b_))
    out = []
    for st in (1, 2):
        pairs = cand[st]
        rng.shuffle(pairs)
        # a random part and the fastest ones (where a 24-bit mantissa no longer holds the fraction)
        chosen = pairs[:limit] + sorted(pairs, key=lambda p: -(p[0] * p[0] + p[1] * p[1]))[:limit]
        for (a, b_) in chosen:
            f = es_frame(rng, rng.choice((17, 18)), 19)
            setf(f, 37, 3, st)
            ew, ns = (a, b_) if rng.random() < 0.5 else (b_, a)
            setf(f, 32 + 13, 1, rng.randrange(2)); setf(f, 32 + 14, 10, ew + 1)
            setf(f, 32 + 24, 1, rng.randrange(2)); setf(f, 32 + 25, 10, ns + 1)
            setf(f, 32 + 37, 9, rng.randrange(1, 512))
            out.append(f)
    return out


def reader_path_checksums(rng, tier, rep, hx):
    """C03 on the other decode path: frames (valid squitters and burst-corrupted ones) decoded from a reader that returns
    short reads; the reported checksum is judged against Crc!Checksum by Trace_Reader (owner C03)"""
    import reader_checks
    ins = []
    for _ in range(q(tier, 1500, 20000)):
        df = rng.choice((17, 17, 18, 11, 4, 20, 21, 0, 16))
        b = with_parity(es_frame(rng, df) if df in (17, 18) else rnd_frame(rng, df))
        if rng.random() < 0.5:
            ln = rng.randrange(1, 25)
            st = rng.randrange(0, 8 * len(b) + 1 - ln)
            for k in range(ln):
                if k in (0, ln - 1) or rng.random() < 0.5:
                    b[(st + k) // 8] ^= 0x80 >> ((st + k) % 8)
        script = [rng.choice((1, 1, 2, 3, 20)) for _ in range(rng.randrange(4, 40))]
        inp = {"bytes": list(b), "script": script, "tag": "crcpath", "between": []}
        if rng.random() < 0.3:
            # far into a long stream, also straddling a multiple of 2^32, alone or as the first of two frames
            inp["base"] = rng.choice(([1, 2147483647], [1, 2147483646], [1, 2147483645], [1, 2147483644], [1, 2147483640], [2, 5], [3, 2147483646],
                                      [4294967295, 2147483647], [4294967295, 2147483646], [4294967295, 2147483645], [4294967295, 2147483644]))
            if len(b) == gen.flen(b[0] >> 3) and rng.random() < 0.5:      # (the burst may have changed the format bits)
                inp["chain"] = 1
        if "chain" not in inp and len(b) == gen.flen(b[0] >> 3) and rng.random() < 0.3:
            # two frames back to back near the beginning of a stream: the second is decoded from where the first ended
            inp["chain"] = 1
        if rng.random() < 0.3:
            # the frame is not the first thing in the reader: other bytes come before it and the reader stands after them
            inp["prefix"] = rng.choice((1, 3, 7, 14, 29))
            if rng.random() < 0.6:
                # ... another complete frame (what is decoded is the frame at the reader's position, not the one before it)
                odf = rng.choice((17, 18, 11, 4, 5, 20, 21, 0, 16))
                inp["prefix_bytes"] = list(with_parity(es_frame(rng, odf) if odf in (17, 18) else rnd_frame(rng, odf)))
                inp["prefix"] = len(inp["prefix_bytes"])
        ins.append(inp)
    ev = reader_checks.hx_reader(hx, ins)
    verdicts, st, tr = core.validate_events("Trace_Reader", ev, rep.prop + "-reader")
    rep.add_trace_stats(st, tr, len(ev))
    for v in verdicts:
        e = ev[v["index"]]
        for owner, field in v["pairs"]:
            rep.mismatch(owner, v["cls"], field, {"kind": "reader", "bytes": e["bytes"], "hex": bytes(e["bytes"]).hex(), "script": e["script"],
                                                  "out": e["out"], "plain": e["plain"], "base": ins[v["index"]].get("base", [0, 0]),
                                                  "chain": ins[v["index"]].get("chain", 0), "prefix": ins[v["index"]].get("prefix", 0),
                                                  "prefix_bytes": ins[v["index"]].get("prefix_bytes")})
    rep.extra["reader_path_decodes"] = len(ev)
