"""Level I of the decoder: DekuBits.tla (deku's bit reader as a machine + the read programs of every frame shape).
Step D: TLC evaluates the module's Level-A lemmas (every named field is delivered from the bits the frame grammar
assigns to it; the program consumes exactly the frame; the repaired defects D1/D2/D4, as deviations, break them).
Binding (spec -> impl): for every shape of the model a frame of that shape is decoded by the real library from an
instrumented reader; the byte-level read/seek calls it makes must be the calls the machine predicts.  A difference
is drift between the transcription and the code (MODEL-DRIFT), not a verdict on a listed property."""
import re

import core
import gen
import reader_checks
from gen import es_frame, rnd_frame, setf


def frame_for(rng, key):
    k = dict(p.split("=") for p in key.split("|"))
    df, ca, drpat, tc, st, bds = (int(k[x]) for x in ("df", "ca", "drpat", "tc", "st", "bds"))
    if df in (17, 18):
        b = es_frame(rng, df, tc, st31=st) if tc == 31 else es_frame(rng, df, tc)
        if tc == 19:
            setf(b, 37, 3, st)
        if df == 17:
            setf(b, 5, 3, ca)
    else:
        b = rnd_frame(rng, df)
        if df in (11,) or df >= 24:
            setf(b, 5, 3, ca)
        if df in (4, 5, 20, 21):
            setf(b, 8, 5, rng.choice((0, 1, 4, 5)) if drpat == 0 else rng.choice([x for x in range(32) if x not in (0, 1, 4, 5)]))
        if df in (20, 21):
            b[4] = bds
    return b


def normalise(ops):
    """deku's log -> the requests as DekuBits counts them: a skip is the read_bits that follows it, a read_bytes that finds
    left-over bits is announced and then served by read_bits (one request), field markers only label what follows"""
    out, fld, cur, i = [], [], "?", 0
    while i < len(ops):
        o = ops[i]
        if o[0] == "F":
            cur = o[1]
        elif o[0] == "p" and i + 1 < len(ops) and ops[i + 1][0] == "b" and ops[i + 1][1] == o[1]:
            out.append(f"b{o[1]}"); fld.append(cur + " (padding)"); i += 1
        elif o[0] == "B" and i + 1 < len(ops) and ops[i + 1][0] == "b" and ops[i + 1][1] == 8 * o[1]:
            out.append(f"B{o[1]}"); fld.append(cur); i += 1
        elif o[0] in ("b", "B", "s"):
            out.append(f"{o[0]}{o[1]}"); fld.append(cur)
        else:
            out.append("?" + str(o)); fld.append(cur)
        i += 1
    return out, fld


def shape_frames(rng):
    """one frame of every shape the decoder distinguishes (format x capability x downlink-request kind x type code x
    subtype x BDS register), other bits random - without running the model (the same grid as DekuBits!Shapes)"""
    keys = []
    for df in (0, 16, 19):
        keys.append((df, 0, 0, 0, 0, 0))
    for df in (4, 5):
        for p in (0, 1):
            keys.append((df, 0, p, 0, 0, 0))
    for df in (11, 24, 27, 31):
        for ca in (0, 2, 5, 7):
            keys.append((df, ca, 0, 0, 0, 0))
    for ca in (0, 2, 5):
        for tc in range(32):
            for st in range(8):
                keys.append((17, ca, 0, tc, st, 0))
    for tc in range(32):
        for st in range(8):
            keys.append((18, 0, 0, tc, st, 0))
    for df in (20, 21):
        for p in (0, 1):
            for f in (0, 16, 32, 48, 119, 255):
                keys.append((df, 0, p, 0, 0, f))
    return [frame_for(rng, f"df={d}|ca={c}|drpat={p}|tc={t}|st={s}|bds={b}") for (d, c, p, t, s, b) in keys]


def run_binding(rep, rng):
    res = core.run_mc("MC_DekuBits", workers=1, timeout=900, cache=False)
    rep.add_model(res, "MC_DekuBits (DeliversPerGrammar for every shape; deviations D1/D2/D4 must fail)")
    if not res["ok"]:
        raise core.ToolError("MC_DekuBits failed: " + res["output_tail"][-600:])
    pred = {}
    predbits = {}
    for t in res["tuples"]:
        m = re.match(r'<<"PROGRAM", "([^"]+)", "([^"]*)", "([^"]*)">>$', t)
        if m:
            pred[m.group(1)] = m.group(2)
            predbits[m.group(1)] = m.group(3)
    if len(pred) < 300:
        raise core.ToolError(f"MC_DekuBits printed only {len(pred)} programs")
    hx = core.build_hx("std")
    keys = sorted(pred)
    frames = [frame_for(rng, k) for k in keys]
    ev = reader_checks.hx_reader(hx, [{"bytes": list(b), "script": [], "tag": "bits"} for b in frames])
    drift = []
    for k, b, e in zip(keys, frames, ev):
        try:
            ops = reader_checks.merge(e["calls"])
        except core.ToolError as x:
            drift.append((k, bytes(b).hex(), "unexpected call: " + str(x), pred[k]))
            continue
        df = b[0] >> 3
        if df in (19, 20) and ops and ops[-1]["op"] == "r":
            ops = ops[:-1]                       # read_crc pulling the parity
        seen = " ".join(f"{o['op']}{o['n']}" for o in ops)
        if e["outcome"] != "ok" or seen != pred[k]:
            drift.append((k, bytes(b).hex(), seen if e["outcome"] == "ok" else "outcome " + e["outcome"], pred[k]))
    # the same at the level of bits: deku's own logging (enabled in the recorder through the guarded `log` hook) reports
    # every read_bits / read_bytes request and every seek of the real decode, with the field being read
    bev = core.run_hx(hx, ["bits"], [{"bytes": list(b)} for b in frames])
    bdrift = []
    for k, b, e in zip(keys, frames, bev):
        seen, fld = normalise(e["ops"])
        want = predbits[k].split()
        if e["outcome"] != "ok" or seen != want:
            i = next((j for j in range(min(len(seen), len(want))) if seen[j] != want[j]), min(len(seen), len(want)))
            where = fld[i] if i < len(fld) else "end"
            bdrift.append((k, bytes(b).hex(), where, seen[i] if i < len(seen) else "-", want[i] if i < len(want) else "-"))
    for k, hx_, where, seen, want in bdrift[:5]:
        print(f"MODEL-DRIFT: bit-level reads of shape {k} ({hx_}): at {where} the decoder requests `{seen}`, DekuBits `{want}`")
    rep.extra["deku_bits_requests_compared"] = sum(len(predbits[k].split()) for k in keys)
    rep.extra["deku_bits_request_drift"] = len(bdrift)
    for k, hx_, seen, want in drift[:5]:
        print(f"MODEL-DRIFT: read program of shape {k} ({hx_}): decoder `{seen}`, DekuBits `{want}`")
    rep.extra["deku_bits_shapes_replayed"] = len(keys)
    rep.extra["deku_bits_program_drift"] = len(drift)
    return drift
