"""Level I of the decoder: DekuBits.tla (deku's bit reader as a machine + the read programs of every frame shape).
Step D: TLC evaluates the module's Level-A lemmas (every named field is delivered from the bits the frame grammar
assigns to it; the program consumes exactly the frame; the repaired defects D1/D2/D4, as deviations, break them).
Binding (spec -> impl): for every shape of the model a frame of that shape is decoded by the real library from an
instrumented reader; the byte-level read/seek calls it makes must be the calls the machine predicts.  A difference
is drift between the transcription and the code (MODEL-DRIFT), not a verdict on a listed property."""
import re

import core
import gen
import reader_checks
from gen import es_frame, rnd_frame, setf


def frame_for(rng, key):
    k = dict(p.split("=") for p in key.split("|"))
    df, ca, drpat, tc, st, bds = (int(k[x]) for x in ("df", "ca", "drpat", "tc", "st", "bds"))
    if df in (17, 18):
        b = es_frame(rng, df, tc, st31=st) if tc == 31 else es_frame(rng, df, tc)
        if tc == 19:
            setf(b, 37, 3, st)
        if df == 17:
            setf(b, 5, 3, ca)
    else:
        b = rnd_frame(rng, df)
        if df in (11,) or df >= 24:
            setf(b, 5, 3, ca)
        if df in (4, 5, 20, 21):
            setf(b, 8, 5, rng.choice((0, 1, 4, 5)) if drpat == 0 else rng.choice([x for x in range(32) if x not in (0, 1, 4, 5)]))
        if df in (20, 21):
            b[4] = bds
    return b


def run_binding(rep, rng):
    res = core.run_mc("MC_DekuBits", workers=1, timeout=900, cache=False)
    rep.add_model(res, "MC_DekuBits (DeliversPerGrammar for every shape; deviations D1/D2/D4 must fail)")
    if not res["ok"]:
        raise core.ToolError("MC_DekuBits failed: " + res["output_tail"][-600:])
    pred = {}
    for t in res["tuples"]:
        m = re.match(r'<<"PROGRAM", "([^"]+)", "([^"]*)">>$', t)
        if m:
            pred[m.group(1)] = m.group(2)
    if len(pred) < 300:
        raise core.ToolError(f"MC_DekuBits printed only {len(pred)} programs")
    hx = core.build_hx("std")
    keys = sorted(pred)
    frames = [frame_for(rng, k) for k in keys]
    ev = reader_checks.hx_reader(hx, [{"bytes": list(b), "script": [], "tag": "bits"} for b in frames])
    drift = []
    for k, b, e in zip(keys, frames, ev):
        try:
            ops = reader_checks.merge(e["calls"])
        except core.ToolError as x:
            drift.append((k, bytes(b).hex(), "unexpected call: " + str(x), pred[k]))
            continue
        df = b[0] >> 3
        if df in (19, 20) and ops and ops[-1]["op"] == "r":
            ops = ops[:-1]                       # read_crc pulling the parity
        seen = " ".join(f"{o['op']}{o['n']}" for o in ops)
        if e["outcome"] != "ok" or seen != pred[k]:
            drift.append((k, bytes(b).hex(), seen if e["outcome"] == "ok" else "outcome " + e["outcome"], pred[k]))
    for k, hx_, seen, want in drift[:5]:
        print(f"MODEL-DRIFT: read program of shape {k} ({hx_}): decoder `{seen}`, DekuBits `{want}`")
    rep.extra["deku_bits_shapes_replayed"] = len(keys)
    rep.extra["deku_bits_program_drift"] = len(drift)
    return drift
