"""Input generators (seeded).  They only choose *which* byte strings are decoded; they carry no
expected values.  The field table mirrors Appendix B of DESIGN.md and is used to aim the sweeps."""
import random

# ---------------------------------------------------------------------------------------------
# bit helpers

def setf(b, off, w, val):
    """set the w-bit field at bit offset off (MSB first) of bytearray b"""
    for k in range(w):
        bit = (val >> (w - 1 - k)) & 1
        i = off + k
        if bit:
            b[i // 8] |= 0x80 >> (i % 8)
        else:
            b[i // 8] &= ~(0x80 >> (i % 8)) & 0xFF


def getf(b, off, w):
    v = 0
    for k in range(w):
        i = off + k
        v = (v << 1) | ((b[i // 8] >> (7 - i % 8)) & 1)
    return v


G = 0x1FFF409


def parity(body):
    """Mode S parity of the body (frame without the last three bytes); used only to *build* frames"""
    r = 0
    for byte in bytes(body) + b"\0\0\0":
        for k in range(8):
            r = (r << 1) | ((byte >> (7 - k)) & 1)
            if r & 0x1000000:
                r ^= G
    return r


def with_parity(b, overlay=0):
    b = bytearray(b)
    p = parity(b[:-3]) ^ overlay
    b[-3:] = bytes([(p >> 16) & 255, (p >> 8) & 255, p & 255])
    return b


SHORT = {0, 4, 5, 11}
LONG = {16, 17, 18, 19, 20, 21} | set(range(24, 32))
SUPPORTED = SHORT | LONG


def flen(df):
    return 7 if df in SHORT else 14


def rnd_frame(rng, df, n=None):
    n = flen(df) if n is None else n
    b = bytearray(rng.getrandbits(8) for _ in range(n))
    if n:
        setf(b, 0, 5, df)
    return b


# ME fields: name -> (offset from ME start, width); ME starts at frame bit 32
ME_FIELDS = {
    "ident": {"cat": (5, 3), **{f"ch{k}": (8 + 6 * k, 6) for k in range(8)}},
    "surface": {"mov": (5, 7), "gts": (12, 1), "trk": (13, 7), "t": (20, 1), "f": (21, 1), "lat": (22, 17), "lon": (39, 17)},
    "airpos": {"ss": (5, 2), "saf": (7, 1), "alt": (8, 12), "t": (20, 1), "f": (21, 1), "lat": (22, 17), "lon": (39, 17)},
    "vel": {"st": (5, 3), "ic": (8, 1), "r": (9, 1), "nacv": (10, 3), "dew": (13, 1), "vew": (14, 10), "dns": (24, 1),
            "vns": (25, 10), "vrsrc": (35, 1), "vrsign": (36, 1), "vr": (37, 9), "res": (46, 2), "difsign": (48, 1), "dif": (49, 7)},
    "status": {"st": (5, 3), "es": (8, 3), "id": (11, 13), "rest": (24, 32)},
    "tss": {"sub": (5, 2), "silsup": (7, 1), "alttype": (8, 1), "alt": (9, 11), "qnh": (20, 9), "hdgst": (29, 1), "hdg": (30, 9),
            "nacp": (39, 4), "nicbaro": (43, 1), "sil": (44, 2), "modest": (46, 1), "ap": (47, 1), "vnav": (48, 1),
            "althold": (49, 1), "adsr": (50, 1), "appr": (51, 1), "tcas": (52, 1), "lnav": (53, 1), "res": (54, 2)},
    "opair": {"st": (5, 3), "ccres0": (8, 2), "acas": (10, 1), "cdti": (11, 1), "ccres1": (12, 2), "arv": (14, 1), "ts": (15, 1),
              "tc": (16, 2), "ccres2": (18, 6), "omres": (24, 2), "ra": (26, 1), "ident": (27, 1), "atc": (28, 1), "saf": (29, 1),
              "sda": (30, 2), "om2": (32, 8), "ver": (40, 3), "nica": (43, 1), "nacp": (44, 4), "gva": (48, 2), "sil": (50, 2),
              "nicbaro": (52, 1), "hrd": (53, 1), "silsup": (54, 1), "res": (55, 1)},
    "opsurf": {"st": (5, 3), "ccres0": (8, 2), "poa": (10, 1), "es1090": (11, 1), "ccres1": (12, 2), "b2low": (14, 1), "uatin": (15, 1),
               "nacv": (16, 3), "nicc": (19, 1), "lw": (20, 4), "omres": (24, 2), "ra": (26, 1), "ident": (27, 1), "atc": (28, 1),
               "saf": (29, 1), "sda": (30, 2), "gps": (32, 8), "ver": (40, 3), "nica": (43, 1), "nacp": (44, 4), "res0": (48, 2),
               "sil": (50, 2), "trkhdg": (52, 1), "hrd": (53, 1), "silsup": (54, 1), "res": (55, 1)},
}
MB_FIELDS = {
    "dlc": {"cont": (8, 1), "res": (9, 5), "ovc": (14, 1), "acas": (15, 1), "subnet": (16, 7), "enh": (23, 1), "spec": (24, 1),
            "uelm": (25, 3), "delm": (28, 4), "idcap": (32, 1), "sqcap": (33, 1), "sic": (34, 1), "gicb": (35, 1), "acasbits": (36, 4),
            "dte": (40, 16)},
    "bdsid": {**{f"ch{k}": (8 + 6 * k, 6) for k in range(8)}},
}
HDR_FIELDS = {
    0: {"vs": (5, 1), "cc": (6, 1), "sl": (8, 3), "ri": (13, 4), "ac": (19, 13), "ap": (32, 24)},
    4: {"fs": (5, 3), "dr": (8, 5), "iis": (13, 4), "ids": (17, 2), "ac": (19, 13), "ap": (32, 24)},
    5: {"fs": (5, 3), "dr": (8, 5), "iis": (13, 4), "ids": (17, 2), "id": (19, 13), "ap": (32, 24)},
    11: {"ca": (5, 3), "aa": (8, 24), "pi": (32, 24)},
    16: {"vs": (5, 1), "sl": (8, 3), "ri": (13, 4), "ac": (19, 13), "mv": (32, 56), "ap": (88, 24)},
    17: {"ca": (5, 3), "aa": (8, 24), "pi": (88, 24)},
    18: {"cf": (5, 3), "aa": (8, 24), "pi": (88, 24)},
    19: {"af": (5, 3)},
    20: {"fs": (5, 3), "dr": (8, 5), "iis": (13, 4), "ids": (17, 2), "ac": (19, 13), "ap": (88, 24)},
    21: {"fs": (5, 3), "dr": (8, 5), "iis": (13, 4), "ids": (17, 2), "id": (19, 13), "ap": (88, 24)},
    24: {"ca": (5, 3), "aa": (8, 24), "tc": (32, 5), "data": (37, 51), "pi": (88, 24)},
}

TC_KIND = {}
for _tc in range(32):
    TC_KIND[_tc] = ("ident" if 1 <= _tc <= 4 else "surface" if 5 <= _tc <= 8 else "airpos" if 9 <= _tc <= 18 or 20 <= _tc <= 22
                    else "vel" if _tc == 19 else "status" if _tc == 28 else "tss" if _tc == 29 else "op" if _tc == 31 else "opaque")


def es_frame(rng, df=17, tc=None, ca=None, valid_version=True, st31=None):
    """random DF17/18 frame with a given type code; operational status reports get a layout the
    version-2 gate accepts unless valid_version is False"""
    b = rnd_frame(rng, df)
    if ca is not None:
        setf(b, 5, 3, ca)
    if tc is None:
        tc = rng.randrange(32)
    setf(b, 32, 5, tc)
    if tc == 31:
        if st31 is not None:
            setf(b, 37, 3, st31)
        st = getf(b, 37, 3)
        if st in (0, 1) and valid_version:
            setf(b, 40, 2, 0)
            if st == 0:
                setf(b, 44, 2, 0)
            setf(b, 56, 2, 0)
            setf(b, 72, 3, rng.randrange(3))
    return b


def sweep_values(rng, w, full_upto=13, extra=24):
    if w <= full_upto:
        return list(range(1 << w))
    vals = {0, 1, 2, (1 << w) - 1, (1 << w) - 2, 1 << (w - 1), (1 << (w - 1)) - 1, (1 << (w - 1)) + 1}
    vals |= {1 << k for k in range(w)} | {((1 << w) - 1) ^ (1 << k) for k in range(w)}
    while len(vals) < 2 * w + 8 + extra:
        vals.add(rng.getrandbits(w))
    return sorted(vals)


def field_sweep(rng, make, off, w, contexts=1, full_upto=13):
    """every value (or boundary/walking/random values) of the field at absolute offset off, each in
    `contexts` fresh random surroundings produced by make()"""
    out = []
    for v in sweep_values(rng, w, full_upto):
        for _ in range(contexts):
            b = make()
            if w <= 30:
                setf(b, off, w, v)
            else:
                setf(b, off, w, v)
            out.append(b)
    return out


def walking_one(rng, make, nbits, keep=()):
    """flip each single bit of a fixed random frame (bits in `keep` ranges excluded): a field that moves
    when an unrelated bit flips is caught"""
    base = make()
    out = [bytearray(base)]
    for i in range(nbits):
        if any(a <= i < a + w for (a, w) in keep):
            continue
        b = bytearray(base)
        b[i // 8] ^= 0x80 >> (i % 8)
        out.append(b)
    return out


def as_inputs(frames, tag=None):
    if tag is None:
        return [{"bytes": list(b)} for b in frames]
    return [{"bytes": list(b), "tag": tag} for b in frames]
