"""A small terminal model: reconstructs the screen from what crossterm/ratatui wrote to the pty (cursor addressing,
erase display, printable UTF-8, the foreground colour of every cell; private modes are parsed and ignored) and snapshots it at every frame
marker `ESC ] 777 ; frame=N BEL` emitted by the guarded hook."""
import re


class Screen:
    def __init__(self, rows, cols):
        self.rows, self.cols = rows, cols
        self.grid = [[" "] * cols for _ in range(rows)]
        self.fgs = [[-1] * cols for _ in range(rows)]     # foreground colour of each cell: ANSI index, -1 = default
        self.fg = -1
        self.r = self.c = 0
        self.snapshots = {}          # frame number -> list of strings
        self.snapshots_fg = {}       # frame number -> list of lists of colour indices

    def resize(self, rows, cols):
        g = [[" "] * cols for _ in range(rows)]
        f = [[-1] * cols for _ in range(rows)]
        for i in range(min(rows, self.rows)):
            for j in range(min(cols, self.cols)):
                g[i][j] = self.grid[i][j]
                f[i][j] = self.fgs[i][j]
        self.grid, self.fgs, self.rows, self.cols = g, f, rows, cols
        self.r = min(self.r, rows - 1)
        self.c = min(self.c, cols - 1)

    def put(self, ch):
        if 0 <= self.r < self.rows and 0 <= self.c < self.cols:
            self.grid[self.r][self.c] = ch
            self.fgs[self.r][self.c] = self.fg
        self.c += 1

    def sgr(self, nums):
        """select graphic rendition: only the foreground colour is kept"""
        if not nums:
            nums = [0]
        k = 0
        while k < len(nums):
            n = nums[k]
            if n == 0 or n == 39:
                self.fg = -1
            elif 30 <= n <= 37:
                self.fg = n - 30
            elif 90 <= n <= 97:
                self.fg = n - 90 + 8
            elif n == 38 and k + 2 < len(nums) and nums[k + 1] == 5:
                self.fg = nums[k + 2]
                k += 2
            elif n == 38 and k + 4 < len(nums) and nums[k + 1] == 2:
                self.fg = 1000                       # some RGB colour
                k += 4
            elif n == 48 and k + 2 < len(nums) and nums[k + 1] == 5:
                k += 2
            elif n == 48 and k + 4 < len(nums) and nums[k + 1] == 2:
                k += 4
            k += 1

    def feed(self, data):
        text = data.decode("utf-8", "replace")
        i, n = 0, len(text)
        while i < n:
            ch = text[i]
            if ch == "\x1b":
                if i + 1 >= n:
                    break
                nx = text[i + 1]
                if nx == "[":
                    m = re.compile(r"\x1b\[([?<>=]?)([0-9;]*)([@-~])").match(text, i)
                    if not m:
                        break
                    priv, args, fin = m.group(1), m.group(2), m.group(3)
                    nums = [int(x) if x else 0 for x in args.split(";")] if args else []
                    if not priv:
                        if fin == "H" or fin == "f":
                            self.r = (nums[0] if len(nums) > 0 and nums[0] else 1) - 1
                            self.c = (nums[1] if len(nums) > 1 and nums[1] else 1) - 1
                        elif fin == "m":
                            self.sgr(nums)
                        elif fin == "J":
                            if (nums[0] if nums else 0) in (2, 3):
                                self.grid = [[" "] * self.cols for _ in range(self.rows)]
                                self.fgs = [[-1] * self.cols for _ in range(self.rows)]
                        elif fin == "K":
                            for j in range(max(self.c, 0), self.cols):
                                if 0 <= self.r < self.rows:
                                    self.grid[self.r][j] = " "
                        elif fin == "A":
                            self.r -= nums[0] if nums and nums[0] else 1
                        elif fin == "B":
                            self.r += nums[0] if nums and nums[0] else 1
                        elif fin == "C":
                            self.c += nums[0] if nums and nums[0] else 1
                        elif fin == "D":
                            self.c -= nums[0] if nums and nums[0] else 1
                        elif fin == "G":
                            self.c = (nums[0] if nums and nums[0] else 1) - 1
                        elif fin == "d":
                            self.r = (nums[0] if nums and nums[0] else 1) - 1
                    i = m.end()
                    continue
                if nx == "]":
                    j = text.find("\x07", i)
                    if j < 0:
                        break
                    body = text[i + 2:j]
                    m = re.match(r"777;frame=(\d+)", body)
                    if m:
                        self.snapshots[int(m.group(1))] = ["".join(row) for row in self.grid]
                        self.snapshots_fg[int(m.group(1))] = [list(row) for row in self.fgs]
                    i = j + 1
                    continue
                i += 2
                continue
            if ch == "\r":
                self.c = 0
            elif ch == "\n":
                self.r += 1
            elif ch == "\b":
                self.c -= 1
            elif ch >= " ":
                self.put(ch)
            i += 1
        return self


def snapshots(data, rows, cols):
    s = Screen(rows, cols)
    s.feed(bytes(data))
    return s.snapshots


def snapshots_with_colour(data, rows, cols):
    s = Screen(rows, cols)
    s.feed(bytes(data))
    return s.snapshots, s.snapshots_fg
