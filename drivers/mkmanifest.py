#!/usr/bin/env python3
"""writes MANIFEST.json from the table below (kept as code so that it stays consistent)"""
import json, os
V = os.path.dirname(os.path.dirname(os.path.abspath(__file__)))
CLAIMED = {
 "C01": ("trace validation of decode/operation events against Frame.tla (TLC); panics, time-outs and allocation are data judged by the spec", "7/C01"),
 "C02": ("trace validation against Frame!Accepts (TLC): DF x length grid, type-31 gate grid, trailing garbage, truncations", "7/C02"),
 "C03": ("trace validation against Crc!Checksum (bitwise polynomial division in TLA+, TLC): table read-out sweeps, random frames, corruptions", "7/C03"),
 "C04": ("trace validation against Frame!Expect header/address fields (TLC): field sweeps x payload types, walking-one", "7/C04"),
 "C05": ("trace validation against CPR!GlobalDecode (exact-integer CPR in TLA+, TLC): encoded true positions, displacements, poles/equator/antimeridian/NL transitions, raw and boundary quadruples; exhaustive NL walk over all reachable latitudes with change points judged by TLC", "7/C05"),
 "C06": ("exhaustive trace validation against ModeAC!AC13/AC12 (TLC): all codes in all carriers", "7/C06"),
 "C07": ("trace validation against Frame!VelocityFields and Velocity!CalcDiff (fixed-point trig in TLA+, TLC): all raw codes, derived velocity lattice (thorough: all 2^22 combinations)", "7/C07"),
 "C08": ("trace validation against Frame!Chars8/CallsignOK (TLC): every code at every position, pairs, padding", "7/C08"),
 "C09": ("exhaustive trace validation against ModeAC!Identity (TLC): all codes in three carriers", "7/C09"),
 "C10": ("trace validation against Frame!MEFields/MBFields (TLC): field sweeps under DF17/18/20/21, dispatch grid", "7/C10"),
 "C12": ("TLC model checking of MC_Tracker (bounded abstract tracker, invariants CountExact/AddedIffNew/Isolation/OnlyExpiryShrinks) + trace validation of recorded histories (one per distinct model state, plus random) against Trace_Tracker", "7/C12"),
 "C13": ("TLC: MC_Tracker invariants Plausible/PublishedWithinJump/ClearedCompletely + trace validation with CPR!GlobalDecode and Geo (fixed-point haversine, guard bands) incl. threshold flights along meridians/equator", "7/C13"),
 "C14": ("TLC: MC_Tracker invariants LatestWins/DistIffPos/TrackIsSuperseded + trace validation of attributes and derived views (details, all_position, Display) after every step", "7/C14"),
 "C15": ("TLC: MC_Tracker PruneRemovesExactly/ReaddedIsFresh + trace validation of tick/prune histories driven through the guarded verif_backdate hook", "7/C15"),
 "C19": ("TLC model checking of MC_Reader (inner reader with short reads / Interrupted, retry loops, caching wrapper; invariants WindowCorrect, NoOverread) over read/seek programs observed from the real decoder; every model schedule replayed through a scripted reader + random schedules, judged by Trace_Reader", "7/C19"),
 "C20": ("trace validation of paired recordings from two separate builds (std+serde, alloc-only) against Trace_Config (projections must agree with each other and with the contract) and of serde round-trip steps against Trace_Tracker/Trace_Config (TLC)", "7/C20"),
 "C11": ("trace validation of recorded text against Render.tla (per-type templates instantiated with the contract's decoded values, branch conditions explicit; float tokens compared numerically; printed heading checked with fixed-point trig) by TLC", "7/C11"),
 "C16": ("TLC model checking of MC_Feed (line loop over a segmented byte stream with short/long gaps; invariants NoCrash, ExactlyOnceInOrder, AllProcessed) + schedules of the bounded model, malformed-line feeds and disconnect/reconnect runs executed against the real 1090 and radar (pty + guarded hook), judged by Trace_Feed", "7/C16"),
 "C17": ("TLC model checking of MC_RadarUI (handler tables, selection clamp at draw, bursts between draws, arrivals/expiry; invariants NoPanic, SelectionShown, property ViewOnly) + behaviours of the bounded model and random operator sessions driven through the real radar in a pty, hook events and session outcome judged by Trace_UI; CLI grid", "7/C17"),
 "C18": ("trace validation of reconstructed screens (terminal model at hook frame markers) paired with the hook's per-aircraft data against Trace_Screen (titles, Airplanes rows, Stats totals tracked through the trace, Map label placement by the linear longitude scale, data unchanged by view actions) by TLC; MC_RadarUI property ViewOnly", "7/C18"),
}
NOT_YET = {}
import subprocess
HOOKS = [l.split()[0] for l in subprocess.run(['git','-C','/repo','log','--format=%H %s'],capture_output=True,text=True).stdout.splitlines() if l.split(' ',1)[1].startswith('hook:')]
def main():
    props = [json.loads(l) for l in open(os.path.join(V, "properties.jsonl"))]
    checks = []
    for p in props:
        pid = p["id"]
        if pid not in CLAIMED:
            continue
        tech, ref = CLAIMED[pid]
        checks.append({
            "property_id": pid,
            "quick_cmd": f"./check {pid} --tier quick",
            "thorough_cmd": f"./check {pid} --tier thorough",
            "evidence_file": f"evidence/{pid}.json",
            "replay_cmd_template": "./check replay {path}",
            "engine": "tlc-trace",
            "level_claimed": {"category": "model_checking",
                              "text": "The property is stated in the TLA+ specification (spec/*.tla); TLC decides it on the specification (Step D) and validates recorded executions of the real code, event by event, against the specification (Step C). Bounded/sampled where the input space is not enumerable; exhaustive where stated in the evidence.",
                              "design_ref": ref},
            "level_note": "trusted: TLC, the TLA+ specification as a rendering of the standards, the recorder's field projection (renaming only); inputs beyond the enumerated sweeps are seeded samples",
            "technique": tech,
        })
    na = [{"property_id": p["id"], "reason": "check not built yet in this round (planned: see DESIGN.md section 7); not claimed until its check exists"}
          for p in props if p["id"] not in CLAIMED]
    m = {"version": 1, "setup_cmd": "./check setup",
         "hooks": {"guard": "rsadsb_adsb_deku_verif", "enable": "RUSTFLAGS='--cfg rsadsb_adsb_deku_verif --check-cfg cfg(rsadsb_adsb_deku_verif)' (set by harness/.cargo/config.toml and by drivers/core.py for the apps)",
                   "baseline_off_cmd": "cd /repo && cargo test --workspace --no-fail-fast --offline", "source_commits": HOOKS, "add_only": True},
         "engines": [{"name": "tlc-trace", "path": "drivers/core.py", "serves_properties": sorted(CLAIMED),
                      "kind_free_text": "TLC 1.8 model checking of spec/MC_*.tla and trace validation of ndjson recordings (spec/Trace_*.tla); Rust recorder harness/hx"}],
         "checks": checks, "not_applicable": na,
         "notes": "see DESIGN.md; known findings in known_findings.json"}
    json.dump(m, open(os.path.join(V, "MANIFEST.json"), "w"), indent=1)
if __name__ == "__main__":
    main()
