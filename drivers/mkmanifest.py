#!/usr/bin/env python3
"""writes MANIFEST.json from the table below (kept as code so that it stays consistent)"""
import json, os
V = os.path.dirname(os.path.dirname(os.path.abspath(__file__)))
CLAIMED = {
 "C01": ("trace validation of decode/operation events against Frame.tla (TLC); panics, time-outs and allocation are data judged by the spec", "7/C01"),
 "C02": ("trace validation against Frame!Accepts (TLC): DF x length grid, type-31 gate grid, trailing garbage, truncations", "7/C02"),
 "C03": ("trace validation against Crc!Checksum (bitwise polynomial division in TLA+, TLC): table read-out sweeps, random frames, corruptions", "7/C03"),
 "C04": ("trace validation against Frame!Expect header/address fields (TLC): field sweeps x payload types, walking-one", "7/C04"),
 "C05": ("trace validation against CPR!GlobalDecode (exact-integer CPR in TLA+, TLC): encoded true positions, displacements, poles/equator/antimeridian/NL transitions, raw and boundary quadruples; exhaustive NL walk over all reachable latitudes with change points judged by TLC", "7/C05"),
 "C06": ("exhaustive trace validation against ModeAC!AC13/AC12 (TLC): all codes in all carriers", "7/C06"),
 "C07": ("trace validation against Frame!VelocityFields and Velocity!CalcDiff (fixed-point trig in TLA+, TLC): all raw codes, derived velocity lattice (thorough: all 2^22 combinations)", "7/C07"),
 "C08": ("trace validation against Frame!Chars8/CallsignOK (TLC): every code at every position, pairs, padding", "7/C08"),
 "C09": ("exhaustive trace validation against ModeAC!Identity (TLC): all codes in three carriers", "7/C09"),
 "C10": ("trace validation against Frame!MEFields/MBFields (TLC): field sweeps under DF17/18/20/21, dispatch grid", "7/C10"),
 "C12": ("TLC model checking of MC_Tracker (bounded abstract tracker, invariants CountExact/AddedIffNew/Isolation/OnlyExpiryShrinks) + trace validation of recorded histories (one per distinct model state, plus random) against Trace_Tracker", "7/C12"),
 "C13": ("TLC: MC_Tracker invariants Plausible/PublishedWithinJump/ClearedCompletely + trace validation with CPR!GlobalDecode and Geo (fixed-point haversine, guard bands) incl. threshold flights along meridians/equator", "7/C13"),
 "C14": ("TLC: MC_Tracker invariants LatestWins/DistIffPos/TrackIsSuperseded + trace validation of attributes and derived views (details, all_position, Display) after every step", "7/C14"),
 "C15": ("TLC: MC_Tracker PruneRemovesExactly/ReaddedIsFresh + trace validation of tick/prune histories driven through the guarded verif_backdate hook", "7/C15"),
 "C19": ("TLC model checking of MC_Reader (inner reader with short reads / Interrupted, retry loops, caching wrapper; invariants WindowCorrect, NoOverread) over read/seek programs observed from the real decoder; every model schedule replayed through a scripted reader + random schedules, judged by Trace_Reader", "7/C19"),
 "C20": ("trace validation of paired recordings from two separate builds (std+serde, alloc-only) against Trace_Config (projections must agree with each other and with the contract) and of serde round-trip steps against Trace_Tracker/Trace_Config (TLC)", "7/C20"),
 "C11": ("trace validation of recorded text against Render.tla (per-type templates instantiated with the contract's decoded values, branch conditions explicit; float tokens compared numerically; printed heading checked with fixed-point trig) by TLC", "7/C11"),
 "C16": ("TLC model checking of MC_Feed (line loop over a segmented byte stream with short/long gaps; invariants NoCrash, ExactlyOnceInOrder, AllProcessed) + schedules of the bounded model, malformed-line feeds and disconnect/reconnect runs executed against the real 1090 and radar (pty + guarded hook), judged by Trace_Feed; TLC model checking of MC_RadarSession (client lifecycle: safety and liveness under weak fairness) and trace validation of every radar run's hook events against it (Trace_Session)", "7/C16"),
 "C17": ("TLC model checking of MC_RadarUI (handler tables, selection clamp at draw, bursts between draws, arrivals/expiry; invariants NoPanic, SelectionShown, property ViewOnly) + behaviours of the bounded model (chosen to cover its transition classes; exhaustive short behaviours and simulation-mode walks) and random operator sessions driven through the real radar in a pty, hook events and session outcome judged by Trace_UI; TLC model checking of MC_RadarSession (lifecycle: TerminalRestored, LeftForAReason, liveness QuitLeadsToExit under weak fairness) with every session's event order validated against it (Trace_Session); CLI grid", "7/C17"),
 "C18": ("trace validation of reconstructed screens (terminal model at hook frame markers) paired with the hook's per-aircraft data against Trace_Screen (titles, Airplanes rows, Stats totals tracked through the trace, Map label and named-place placement by the linear longitude scale, data unchanged by view actions) by TLC; MC_RadarUI property ViewOnly", "7/C18"),
}
NOT_YET = {}
import subprocess
HOOKS = [l.split()[0] for l in subprocess.run(['git','-C','/repo','log','--format=%H %s'],capture_output=True,text=True).stdout.splitlines() if l.split(' ',1)[1].startswith('hook:')]
TEXT = {
 "C01": "Every decode / render / Debug / velocity-computation / pairing / tracker-update call of ~110 K (quick) inputs is recorded with its outcome and allocation and judged by TLC (Trace_Decode.Totality, Trace_Pair, Trace_Tracker): DF x length grid 0..32, every value of every <=13-bit field in every carrier, extremes, boundary CPR pairs, polar/antimeridian receivers, range limits 0..19000 km. Exhaustive per field, sampled across fields; 'never' over 2^112 frames is not proved.",
 "C02": "Frame!Accepts (TLA+) is evaluated by TLC on every recorded buffer: all 32 format codes x lengths 0..32, every frame shape (format x payload variant) at length-1 / exact / with tails (tail events must project like the frame before them), the full 2^9 grid of type-31 reserved bits x version x subtype x DF17/18, truncations. MC_Reader checks OkIffLongEnough/NoOverread on the reader model. Level I: DekuBits (TLC) - deku's bit machine and the read program of each of 647 frame shapes deliver every field from the bits the grammar assigns (repaired defects D1/D2/D4 as deviations must fail); the predicted read/seek calls are compared with the real decoder's for every shape (drift only).",
 "C03": "The checksum of every recorded frame is compared by TLC with bitwise polynomial division in TLA+ (Crc!Checksum): sweeps that read out every table entry at every byte position, random and valid frames of every format, 1.5 K (quick) / 60 K (thorough) corruptions. Step D: MC_Crc explores 234 249 states and shows on the specification that no error pattern of weight <= 5 in 112 bits has syndrome 0, plus bursts and linearity - which with the conformance of the implementation's checksum gives the detection claim.",
 "C04": "Header and address fields of every recorded frame are compared with Bits!Field extraction at the Annex 10 offsets: every value of every header field x every payload type, walking-one over every frame shape; all 2^24 addresses are rendered and parsed back by the recorder (oracle-free equation, count and samples judged by TLC). Level I: DekuBits (TLC) - deku's bit machine and the read program of each of 647 frame shapes deliver every field from the bits the grammar assigns (repaired defects D1/D2/D4 as deviations must fail); the predicted read/seek calls are compared with the real decoder's for every shape (drift only).",
 "C05": "CPR!GlobalDecode in exact integer arithmetic (TLA+) judges 29 K (quick) / 1.1 M (thorough) recorded pairings within 3 micro-degrees: encoded true positions, displacements, poles, equator, antimeridian, NL transitions, raw/boundary/rounding-tie quadruples, both orders; the longitude-zone count is walked over all 3.9 M + 3.9 M reachable latitudes with the change points judged by TLC. Step D: MC_CPR round trip on 34 992 states; NL thresholds recomputed from the closed form.",
 "C06": "Exhaustive: all 8192 13-bit codes in DF0/4/16/20 and all 4096 12-bit codes in each of the 13 type codes are decoded by the real code and compared by TLC with ModeAC!AC13/AC12 written from the Gray-code definition. Step D: MC_ModeAC (8192 states) shows the Gillham map is a bijection onto -1200..126700 ft with the Gray property.",
 "C07": "All raw velocity fields (every code) and the derived velocity are judged by TLC: components and vertical rate exactly, ground speed by an integer-square-root bracket, track by the fixed-point sine/cosine relation (no inverse functions) and by its sign as a consumer sees it (no negative zero). Quick: lattice of components; thorough: all 2^22 combinations of direction bits and components.",
 "C08": "Every 6-bit code at every one of the 8 positions, all pairs of positions, padded and random strings in both carriers (type 1-4, BDS 2,0), all type/category values; TLC compares with the Annex 10 character set (Frame!Chars8, CallsignOK).",
 "C09": "Exhaustive: all 8192 identity codes in DF5, DF21 and type 28 compared by TLC with ModeAC!Identity; all subtype/emergency pairs. Step D: MC_ModeAC shows the de-interleaving is a bijection onto four octal digits and ignores X.",
 "C10": "Every interpreted payload field (surface/airborne position, target state, operational status airborne/surface, BDS 1,0) is swept (all values up to 12 bits, boundary/walking/random beyond) under DF17, DF18 x 8 control-field types and DF20/21 and compared by TLC with the DO-260B / ICAO 9871 offsets and scalings in Frame.tla; dispatch grid over type code x subtype and all first MB bytes. Level I: DekuBits (TLC) - deku's bit machine and the read program of each of 647 frame shapes deliver every field from the bits the grammar assigns (repaired defects D1/D2/D4 as deviations must fail); the predicted read/seek calls are compared with the real decoder's for every shape (drift only).",
 "C11": "The text of ~8 K (quick) recorded frames, including a generator that takes each branch condition of the renderer both ways, is compared line by line by TLC with Render.tla (per-type templates instantiated with the contract's decoded values; float tokens numerically; printed heading via trig relation).",
 "C12": "MC_Tracker (TLC, 564 K states quick / 2.4 M + 6.4 M random-walk states thorough) checks CountExact, AddedIffNew, Isolation, OnlyExpiryShrinks on the tracking rules of Tracker.tla; one concretised history per distinct model state (6 K quick / 40 K thorough) and random histories are run through the real Airplanes and every step is judged from the observed pre-state by Trace_Tracker, which instantiates the same rules.",
 "C13": "Same models and recordings as C12; Trace_Tracker instantiates Tracker!PosUpd with CPR!GlobalDecode and Geo (fixed-point haversine in verification direction, 5 m tolerance, 25 m guard band at the range and 100 km thresholds); threshold flights along meridians/equator hit both sides of each limit within tens of metres.",
 "C14": "Same models and recordings as C12; latest-wins attributes, per-component 'changed' verdicts, the track step (TrackStepOK) and the derived views (details, all_position, Display, distance iff position) are judged after every step.",
 "C15": "MC_Tracker PruneRemovesExactly / ReaddedIsFresh; recorded histories with integer clock ticks (guarded hook verif_backdate moves every timestamp) and prune(T), T in 0..120, judged by Trace_Tracker against the spec's own clock; histories that took >= 0.9 s of wall time are repeated, never judged.",
 "C16": "MC_Feed (TLC) checks NoCrash / ExactlyOnceInOrder / AllProcessed and, under weak fairness, EventuallyAllProcessed over every segmentation (<= 4 segments) and gap assignment of small feeds; TLAPS proves NoCrash for all streams and schedules (thorough). Schedules of the model, malformed-line, split-invalid, bulk and over-long pausing feeds (nothing but complete well-formed lines may be processed as a frame), --limit-parsing, disconnect and reconnect runs are executed against the real 1090 and radar over loopback TCP and judged by Trace_Feed. MC_RadarSession (TLC, with fairness) checks that a closed feed leads to exit, or with --retry-tcp to a reconnect that keeps the tracked aircraft; each radar run's hook events must be a behaviour of that machine (Trace_Session: connected before any line, disconnect_keys, retry_lost_aircraft).",
 "C17": "MC_RadarUI (TLC) checks NoPanic / SelectionShown over keys, mouse events, arrivals/expiry and bursts between draws; behaviours of the model - one per transition class (event x tab x selection x rows), rarest first, from the exhaustive short behaviours and from long random walks of the same machine - and seeded random operator sessions (terminal sizes down to 1x1, SGR mouse, resizes, raw junk), quitting while waiting for a (re)connection, and a grid of malformed option values are run against the real radar in a pty; exit status, termios, DEC modes and panics judged by Trace_UI; every logged step is explained by the handler tables (drift = 0). MC_RadarSession (TLC) checks the lifecycle - terminal as found whenever the process has ended, the loop only left for a reason, a quit request leads to exit (liveness under weak fairness) - and Trace_Session accepts a session only if its hook events, in order, are a behaviour of that machine (sessions with server closes, reconnects, quitting in every state).",
 "C18": "Screens reconstructed by a terminal model at the hook's frame markers are paired with the hook's per-aircraft data and judged by Trace_Screen: title counts, every Airplanes row (address, callsign, lat, lon, altitude, distance, messages), Stats totals tracked through the trace, Map label column by the linear longitude scale (+-1) and row by linearised Mercator (+-2), named places (--locations, --airports) likewise on Map and Coverage, distances measured from the receiver whatever the view, data unchanged by view actions; MC_RadarUI ViewOnly / StatsOK.",
 "C19": "MC_Reader (TLC) explores every schedule with <= 1/2 short reads and <= 1/2 Interrupted errors of the read/seek programs of 40 frame shapes (taken from reference runs of the real decoder) and checks the checksum-window invariants and termination (liveness under weak fairness); every model schedule, random schedules, frames behind a prefix and back-to-back frames are replayed through a scripted Read+Seek and judged by Trace_Reader (result equals the slice decode; decoding is pure).",
 "C20": "The recorder is built twice (std+serde, alloc-only); both run the same decode / pairing / tracker inputs and Trace_Config requires the projections (and texts) to be identical; every decoded frame and tracker states inside histories are sent through serde_json and back and re-projected.",
}


def main():
    props = [json.loads(l) for l in open(os.path.join(V, "properties.jsonl"))]
    checks = []
    for p in props:
        pid = p["id"]
        if pid not in CLAIMED:
            continue
        tech, ref = CLAIMED[pid]
        checks.append({
            "property_id": pid,
            "quick_cmd": f"./check {pid} --tier quick",
            "thorough_cmd": f"./check {pid} --tier thorough",
            "evidence_file": f"evidence/{pid}.json",
            "replay_cmd_template": "./check replay {path}",
            "engine": "tlc-trace",
            "level_claimed": {"category": "model_checking",
                              "text": TEXT[pid],
                              "design_ref": ref},
            "level_note": "trusted: TLC, the TLA+ specification as a rendering of the standards, the recorder's field projection (renaming only); inputs beyond the enumerated sweeps are seeded samples",
            "technique": tech,
        })
    na = [{"property_id": p["id"], "reason": "check not built yet in this round (planned: see DESIGN.md section 7); not claimed until its check exists"}
          for p in props if p["id"] not in CLAIMED]
    m = {"version": 1, "setup_cmd": "./check setup",
         "hooks": {"guard": "rsadsb_adsb_deku_verif", "enable": "RUSTFLAGS='--cfg rsadsb_adsb_deku_verif --check-cfg cfg(rsadsb_adsb_deku_verif)' (set by harness/.cargo/config.toml and by drivers/core.py for the apps)",
                   "baseline_off_cmd": "cd /repo && cargo test --workspace --no-fail-fast --offline", "source_commits": HOOKS, "add_only": True},
         "engines": [{"name": "tlc-trace", "path": "drivers/core.py", "serves_properties": sorted(CLAIMED),
                      "kind_free_text": "TLC 1.8 model checking of spec/MC_*.tla and trace validation of ndjson recordings (spec/Trace_*.tla); Rust recorder harness/hx"}],
         "checks": checks, "not_applicable": na,
         "notes": "see DESIGN.md (section 0 is the status); known findings in known_findings.json: 24 entries fixed by fix: commits in /repo, two open (C17: F1 quit delayed behind a >1024-byte input burst, F2 panic on a terminal of more than 65 535 cells; the check prints a KNOWN-FINDING line for each)"}
    json.dump(m, open(os.path.join(V, "MANIFEST.json"), "w"), indent=1)
if __name__ == "__main__":
    main()
