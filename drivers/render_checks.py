"""C11: text rendering.  `decode` events recorded with their text are judged by TLC against spec/Render.tla."""
import json
import os
import random

import core
import decode_checks
import gen
from gen import setf, es_frame, rnd_frame


def branch_inputs(rng, tier):
    """each branch condition of the renderer on both sides"""
    fr = []
    n = 6 if tier == "quick" else 60
    for _ in range(n):
        # altitude 0 vs > 0 in DF0/4/16/20
        for df in (0, 4, 16, 20):
            b = rnd_frame(rng, df); setf(b, 19, 13, 0); fr.append(b)
            b = rnd_frame(rng, df); setf(b, 19, 13, rng.choice((0x1FFF, 0x0040, 0x0010, 0x0810, 0x1c38))); fr.append(b)
        for fs in range(8):
            for df in (4, 5):
                b = rnd_frame(rng, df); setf(b, 5, 3, fs); fr.append(b)
        for ca in range(8):
            b = rnd_frame(rng, 11); setf(b, 5, 3, ca); fr.append(b)
            b = es_frame(rng, 17, rng.choice((0, 4, 11, 19, 28, 29))); setf(b, 5, 3, ca); fr.append(b)
        for cf in range(8):
            for tc in (0, 2, 6, 12, 19, 21, 23, 24, 26, 28, 29, 30, 31):
                b = es_frame(rng, 18, tc); setf(b, 5, 3, cf); fr.append(b)
        # target state and status flags
        for bits in range(64):
            b = es_frame(rng, 17, 29)
            setf(b, 32 + 29, 1, bits & 1); setf(b, 32 + 52, 1, (bits >> 1) & 1); setf(b, 32 + 47, 1, (bits >> 2) & 1)
            setf(b, 32 + 48, 1, (bits >> 3) & 1); setf(b, 32 + 49, 1, (bits >> 4) & 1); setf(b, 32 + 51, 1, (bits >> 5) & 1)
            fr.append(b)
        for q in (0, 1, 2, 6, 266, 267, 511):
            b = es_frame(rng, rng.choice((17, 18)), 29); setf(b, 32 + 20, 9, q); fr.append(b)
        for h in (0, 1, 64, 128, 255, 256, 511):
            b = es_frame(rng, 17, 29); setf(b, 32 + 29, 1, 1); setf(b, 32 + 30, 9, h); fr.append(b)
        # operational status words
        for st in (0, 1):
            for bits in range(32):
                b = es_frame(rng, rng.choice((17, 18)), 31, st31=st)
                for k, off in enumerate((26, 27, 28, 29, 53)):
                    setf(b, 32 + off, 1, (bits >> k) & 1)
                setf(b, 32 + 30, 2, rng.randrange(4))
                if st == 1:
                    setf(b, 32 + 20, 4, rng.choice((0, 0, 1, 15)))
                fr.append(b)
        for st in range(2, 8):
            fr.append(es_frame(rng, 17, 31, st31=st))
        # velocity: every subtype, rate present or not, invalid packet
        for st in range(8):
            b = es_frame(rng, rng.choice((17, 18)), 19); setf(b, 37, 3, st); fr.append(b)
            b = es_frame(rng, 17, 19); setf(b, 37, 3, st); setf(b, 32 + 37, 9, 0); fr.append(b)
            b = es_frame(rng, 17, 19); setf(b, 37, 3, st); setf(b, 32 + 14, 10, 0); fr.append(b)
        # airspeed subtypes: vertical-rate code 0 (no information: no line), 1 (zero rate: line shown), 2, maximum; both signs
        for st in (3, 4):
            for code in (0, 1, 2, 511):
                for sign in (0, 1):
                    b = es_frame(rng, rng.choice((17, 18)), 19); setf(b, 37, 3, st); setf(b, 32 + 36, 1, sign); setf(b, 32 + 37, 9, code); fr.append(b)
        for _ in range(8):
            b = es_frame(rng, 17, 19); setf(b, 37, 3, 1)
            v = rng.choice((1, 2, 101, 500))
            setf(b, 32 + 14, 10, v); setf(b, 32 + 25, 10, rng.choice((1, v, 2, 300)))
            setf(b, 32 + 37, 9, rng.randrange(1, 512)); fr.append(b)
        # emergency states, identification in both carriers, BDS kinds
        for es_ in range(8):
            b = es_frame(rng, 17, 28); setf(b, 40, 3, es_); fr.append(b)
        for first in (0x00, 0x10, 0x20, 0x30):
            for df in (20, 21):
                b = rnd_frame(rng, df); b[4] = first; fr.append(b)
        for df in (19,) + tuple(range(24, 32)):
            fr.append(rnd_frame(rng, df))
        # altitude None / Some in position reports, both parities
        for tc in (9, 18, 20, 22):
            for code in (0, 0x010, 0x7ff, 0xc38, 0x008, 0x004):
                b = es_frame(rng, rng.choice((17, 18)), tc); setf(b, 40, 12, code); fr.append(b)
    # every value of every number the reports print (one report per value, other bits random): selected altitude, QNH,
    # heading (target state); vertical rate and GNSS difference with both signs, airspeed, magnetic heading (velocity);
    # 12-bit altitudes; movement and track (surface); identity codes and 13-bit altitudes in a stride that covers all
    # values over a few seeds
    def sweep(tc, off, width, values=None, pre=None, dfs=(17, 18)):
        for v in (values if values is not None else range(1 << width)):
            b = es_frame(rng, rng.choice(dfs), tc)
            if pre:
                pre(b)
            setf(b, 32 + off, width, v)
            fr.append(b)
    sweep(29, 9, 11); sweep(29, 20, 9); sweep(29, 30, 9, pre=lambda b: setf(b, 32 + 29, 1, 1))
    for st in (1, 3):
        for sign in (0, 1):
            sweep(19, 37, 9, pre=lambda b, st=st, sign=sign: (setf(b, 37, 3, st), setf(b, 32 + 36, 1, sign)))
            sweep(19, 49, 7, pre=lambda b, st=st, sign=sign: (setf(b, 37, 3, st), setf(b, 32 + 48, 1, sign)))
    sweep(19, 25, 10, pre=lambda b: setf(b, 37, 3, 3)); sweep(19, 14, 10, pre=lambda b: (setf(b, 37, 3, 4), setf(b, 32 + 13, 1, 1)))
    sweep(rng.choice((9, 12, 18)), 8, 12); sweep(rng.choice((20, 21, 22)), 8, 12, values=range(rng.randrange(4), 4096, 4))
    sweep(6, 5, 7); sweep(7, 13, 7, pre=lambda b: setf(b, 32 + 12, 1, 1))
    sweep(28, 11, 13, values=range(rng.randrange(8), 8192, 8))
    for df in (0, 4, 16, 20):
        for v in range(rng.randrange(16), 8192, 16):
            b = rnd_frame(rng, df); setf(b, 19, 13, v); fr.append(b)
    for df in (5, 21):
        for v in range(rng.randrange(16), 8192, 16):
            b = rnd_frame(rng, df); setf(b, 19, 13, v); fr.append(b)
    # ... and always the codes at the ends of each range: identity 0000 and 7777 with the X bit either way, altitude codes
    # that are all zero / only Q / only M / all ones, the codes around 0 ft
    for df in (5, 21):
        for v in (0x0000, 0x0040, 0x1fff, 0x1fbf, 0x0001, 0x1000):
            b = rnd_frame(rng, df); setf(b, 19, 13, v); fr.append(b)
    for v in (0x0000, 0x0040, 0x1fff, 0x1fbf):
        b = es_frame(rng, rng.choice((17, 18)), 28); setf(b, 32 + 11, 13, v); fr.append(b)
    for df in (0, 4, 16, 20):
        for v in (0x0000, 0x0010, 0x0040, 0x1fff, 0x0011, 0x0410, 0x0418, 0x0419, 0x041a):
            b = rnd_frame(rng, df); setf(b, 19, 13, v); fr.append(b)
    for tc in (9, 18, 20, 22):
        for v in (0x000, 0x010, 0xfff, 0x20a, 0x20b, 0x038, 0x039, 0x03a, 0x030):      # (0x20a: Gillham 0 ft; 0x038: 25 N - 1000 = 0)
            b = es_frame(rng, rng.choice((17, 18)), tc); setf(b, 40, 12, v); fr.append(b)
    return gen.as_inputs(fr)


def run(prop, tier, seed, rep):
    rng = random.Random(seed * 1000003 + 11)
    inputs = branch_inputs(rng, tier)
    for p, k in (("C04", 1200), ("C08", 600), ("C09", 500), ("C10", 1500), ("C07", 1200), ("C01", 800)):
        x = decode_checks.GENERATORS[p](random.Random(rng.getrandbits(32)), "quick")
        rng.shuffle(x)
        inputs += x[:k if tier == "quick" else k * 10]
    # one frame of every shape the decoder distinguishes, twice (other bits random)
    import bits_checks
    for k in (1, 2):
        inputs += [{"bytes": list(b)} for b in bits_checks.shape_frames(random.Random(seed * 13 + k))]
    inputs += [{"bytes": list(b)} for b in decode_checks.near_integer_speed_frames(random.Random(seed * 17 + 3), 400 if tier == "quick" else 6000)]
    hx = core.build_hx("std")
    events = core.run_hx(hx, ["decode", "--text", "--ops"], inputs)
    for e in events:
        e.pop("rawtext", None)
        e.pop("calc", None)
    verdicts, st, tr = core.validate_events("Trace_Render", events, prop)
    rep.add_trace_stats(st, tr, len(events))
    summary = {}
    for v in verdicts:
        ev = events[v["index"]]
        for owner, field in v["pairs"]:
            k = f"{owner}|{v['cls']}|{field}"
            summary.setdefault(k, [0, bytes(ev["bytes"]).hex(), ev.get("text")])[0] += 1
            rep.mismatch(owner, v["cls"], field, {"kind": "render", "bytes": ev["bytes"], "hex": bytes(ev["bytes"]).hex(), "text": ev.get("text")})
    json.dump(summary, open(os.path.join(core.BUILD, f"last_{prop}_verdicts.json"), "w"), indent=1, sort_keys=True)
    if tier == "thorough":
        idx = next(i for i, e in enumerate(events) if e["outcome"] == "ok" and len(e.get("text", [])) >= 3)
        core.anti_vacuity(rep, "Trace_Render", events[:idx + 20], [(idx, lambda e: (e["text"].__setitem__(1, e["text"][1] + "x"), e)[1], "C11")], name="C11-selftest")
    shapes = {}
    for e in events:
        if e["outcome"] == "ok" and e.get("text"):
            key = e["text"][0] + f"|{len(e['text'])}"
            shapes[key] = shapes.get(key, 0) + 1
    rep.extra.update({"events": len(events), "rendered": sum(1 for e in events if e.get("text")),
                      "distinct_first_line_x_line_count": len(shapes)})
    rep.samples = [{"hex": bytes(events[0]["bytes"]).hex(), "text": events[0].get("text")},
                   {"hex": bytes(events[len(events) // 2]["bytes"]).hex(), "text": events[len(events) // 2].get("text")}]
    rep.assumptions += ["floating-point tokens are compared numerically (tolerance 0.002) after lexical normalisation by the recorder",
                        "templates (labels, spacing) are those pinned by the README and the test-suite examples, transcribed into Render.tla"]
