"""Shared machinery of the ./check orchestrator: building the harness from /repo's working tree,
running recorders, linting traces, running TLC (trace validation shards and MC_* models),
parsing VERDICT lines, known findings, replay files, evidence files, exit status.

Nothing in this file knows what a correct decode, position or tracker state is: every judgement
is a TLA+ expression evaluated by TLC (spec/*.tla)."""
import concurrent.futures as cf
import hashlib
import json
import os
import re
import subprocess
import sys
import time

VERIF = os.path.dirname(os.path.dirname(os.path.abspath(__file__)))
REPO = "/repo"
BUILD = os.path.join(VERIF, ".build")
SPEC = os.path.join(VERIF, "spec")
HARNESS = os.path.join(VERIF, "harness")
JAR = "/opt/veriftools/tla/tla2tools.jar:/opt/veriftools/tla/CommunityModules-deps.jar"
MAX_JVMS = 14


class ToolError(Exception):
    pass


def log(*a):
    print(*a, file=sys.stderr, flush=True)


def sh(cmd, **kw):
    return subprocess.run(cmd, stdout=subprocess.PIPE, stderr=subprocess.PIPE, text=True, **kw)


# ------------------------------------------------------------------------------------------------
# building

def cargo_env():
    e = dict(os.environ)
    e["CARGO_NET_OFFLINE"] = "true"
    e.pop("RUSTFLAGS", None)      # the harness config.toml carries the guard cfg
    return e


_built = {}


def build_hx(config="std"):
    """(re)build the recorder against /repo's current working tree; returns the binary path"""
    if config in _built:
        return _built[config]
    tdir = os.path.join(BUILD, f"target-{config}")
    cmd = ["cargo", "build", "--release", "--offline", "--target-dir", tdir]
    if config == "alloc":
        cmd += ["--no-default-features", "--features", "alloc"]
    t = time.time()
    r = sh(cmd, cwd=HARNESS, env=cargo_env())
    if r.returncode != 0:
        raise ToolError(f"harness build failed ({config}):\n{r.stderr[-4000:]}")
    log(f"[build] hx {config} {time.time()-t:.1f}s")
    p = os.path.join(tdir, "release", "hx")
    _built[config] = p
    return p


def build_apps():
    """build the two client binaries from /repo with the guard on, into .build/target-apps"""
    if "apps" in _built:
        return _built["apps"]
    tdir = os.path.join(BUILD, "target-apps")
    env = cargo_env()
    env["RUSTFLAGS"] = "--cfg rsadsb_adsb_deku_verif --check-cfg cfg(rsadsb_adsb_deku_verif)"
    t = time.time()
    r = sh(["cargo", "build", "--release", "--offline", "-p", "rsadsb_apps", "--target-dir", tdir], cwd=REPO, env=env)
    if r.returncode != 0:
        raise ToolError(f"apps build failed:\n{r.stderr[-4000:]}")
    log(f"[build] apps {time.time()-t:.1f}s")
    _built["apps"] = os.path.join(tdir, "release")
    return _built["apps"]


# ------------------------------------------------------------------------------------------------
# running the recorder

def run_hx(binary, args, inputs, timeout=600):
    """feed `inputs` (list of json-able dicts) to `hx <args>`; returns list of event dicts.
    Exit code 3 of the recorder = its watchdog saw an input run for more than 2 s: that input is
    recorded as a time-out event (data, judged by the spec) and the run resumes after it."""
    events = []
    skip = 0
    data = [json.dumps(x, separators=(",", ":")) for x in inputs]
    while True:
        payload = "\n".join(data) + "\n"
        r = subprocess.run([binary] + args + ["--skip", str(skip)], input=payload, stdout=subprocess.PIPE,
                           stderr=subprocess.PIPE, text=True, timeout=timeout)
        out = [json.loads(l) for l in r.stdout.splitlines() if l.strip()]
        events.extend(out)
        if r.returncode == 0:
            break
        if r.returncode == 3:
            m = re.search(r"HX-TIMEOUT index=(\d+)", r.stderr)
            if not m:
                raise ToolError("recorder exit 3 without index")
            idx = int(m.group(1))      # the recorder flushes after every event, so everything before idx is in `out`
            ev = {"ev": "decode", "bytes": inputs[idx].get("bytes", []), "alloc": 0, "outcome": "timeout", "out": {"ok": 2}}
            if "tag" in inputs[idx]:
                ev["tag"] = inputs[idx]["tag"]
            events.append(ev)
            skip = idx + 1
            if skip >= len(data):
                break
            continue
        raise ToolError(f"recorder failed rc={r.returncode}: {r.stderr[-2000:]}")
    return events


# ------------------------------------------------------------------------------------------------
# trace lint (TLC's Json module: no null, no floats, |int| < 2^31)

def lint_value(v, path="$"):
    if v is None:
        raise ToolError(f"trace lint: null at {path}")
    if isinstance(v, bool):
        raise ToolError(f"trace lint: boolean at {path} (use 0/1)")
    if isinstance(v, float):
        raise ToolError(f"trace lint: float at {path}")
    if isinstance(v, int):
        if abs(v) >= 2 ** 31:
            raise ToolError(f"trace lint: integer out of 32-bit range at {path}")
    elif isinstance(v, list):
        for i, x in enumerate(v):
            lint_value(x, f"{path}[{i}]")
    elif isinstance(v, dict):
        for k, x in v.items():
            lint_value(x, f"{path}.{k}")


def lint_events(events):
    for i, e in enumerate(events):
        lint_value(e, f"$[{i}]")


# ------------------------------------------------------------------------------------------------
# TLC

def java_cmd(xmx="1g", deque=False, tiered=True):
    c = ["java", "-XX:+UseSerialGC", "-Xss1g", f"-Xmx{xmx}"]
    if tiered:
        c.append("-XX:TieredStopAtLevel=1")
    if deque:
        c.append("-Dtlc2.tool.queue.IStateQueue=StateDeque")
    return c + ["-cp", JAR, "tlc2.TLC"]


_balanced_open = re.compile(r'<<\s*"(VERDICT|REPLAY|TRACE-NOT-CONSUMED|INFO|PROGRAM)"')


def _norm(t):
    t = re.sub(r"\s+", " ", t)
    t = re.sub(r"<< ", "<<", t)
    t = re.sub(r" >>", ">>", t)
    t = re.sub(r"\{ ", "{", t)
    t = re.sub(r" \}", "}", t)
    return t


def _depth(s):
    # brackets inside string literals do not occur in what the specs print (classes use | and =)
    return s.count("<<") + s.count("{") + s.count("[") - s.count(">>") - s.count("}") - s.count("]")


def collect_tuples(text):
    """TLC pretty-prints long values over several lines; re-assemble every printed tuple that starts
    with a known tag into one normalised string.  The number of tags found in the raw text must equal
    the number of tuples re-assembled (nothing is dropped silently)."""
    out = []
    cur = None
    depth = 0
    for line in text.splitlines():
        s = line.strip()
        if cur is None:
            if _balanced_open.match(s):
                cur = s
                depth = _depth(s)
                if depth <= 0:
                    out.append(_norm(cur))
                    cur = None
        else:
            cur += " " + s
            depth += _depth(s)
            if depth <= 0:
                out.append(_norm(cur))
                cur = None
    if cur is not None:
        raise ToolError("unterminated tuple in TLC output: " + cur[:200])
    raw = len(re.findall(r'<<\s*"(?:VERDICT|REPLAY|TRACE-NOT-CONSUMED|INFO|PROGRAM)"', text))
    if raw != len(out):
        raise ToolError(f"TLC output: {raw} tagged tuples printed but {len(out)} re-assembled")
    return out


_stats = re.compile(r"(\d+) states generated, (\d+) distinct states found")


def parse_tlc_stats(text):
    m = None
    for m in _stats.finditer(text):
        pass
    if not m:
        return 0, 0
    return int(m.group(2)), int(m.group(1))      # (distinct states, states generated = transitions+init)


def run_trace_shard(module, shard_path, workdir, deque=False, timeout=900, extra_env=None):
    os.makedirs(workdir, exist_ok=True)
    env = dict(os.environ)
    env["TRACE"] = shard_path
    if extra_env:
        env.update(extra_env)
    cmd = java_cmd(deque=deque) + ["-workers", "1", "-fpmem", "0.05", "-metadir", os.path.join(workdir, "meta"),
                                   "-cleanup", "-noGenerateSpecTE", "-config", os.path.join(SPEC, module + ".cfg"),
                                   os.path.join(SPEC, module + ".tla")]
    try:
        r = subprocess.run(cmd, cwd=workdir, env=env, stdout=subprocess.PIPE, stderr=subprocess.STDOUT, text=True, timeout=timeout)
    except subprocess.TimeoutExpired:
        raise ToolError(f"TLC timed out on {shard_path}")
    out = r.stdout
    if "Model checking completed. No error has been found." not in out:
        raise ToolError(f"TLC did not complete on {shard_path} (rc={r.returncode}):\n{out[-3000:]}")
    return out


LAST_INFOS = []          # INFO tuples (e.g. MODEL-DRIFT) of the last validate_events call
_verdict = re.compile(r'<<"VERDICT", (\d+), "([^"]*)", \{(.*)\}>>$')
_pair = re.compile(r'<<"(C\d+|I)", "([^"]+)">>')


def validate_events(module, events, name, shards=None, deque=False, boundary=None):
    """shard `events`, validate every shard with TLC; returns (verdicts, states, transitions)
    verdict = dict(index=<global index>, cls=..., pairs=[(owner, field)...])"""
    lint_events(events)
    n = len(events)
    if n == 0:
        return [], 0, 0
    if shards is None:
        shards = max(1, min(MAX_JVMS, n // 400))
    size = (n + shards - 1) // shards
    work = os.path.join(BUILD, "work", name)
    sh(["rm", "-rf", work])
    os.makedirs(work, exist_ok=True)
    # cut points; with `boundary`, a shard may only start at an event for which boundary(event) holds
    # (stateful traces: a shard must begin at a reset event)
    cuts = [0]
    for s in range(1, shards):
        c = s * size
        if boundary is not None:
            while c < n and not boundary(events[c]):
                c += 1
        if c < n and c > cuts[-1]:
            cuts.append(c)
    cuts.append(n)
    jobs = []
    offsets = {}
    for s in range(len(cuts) - 1):
        chunk = events[cuts[s]:cuts[s + 1]]
        if not chunk:
            continue
        offsets[s] = cuts[s]
        p = os.path.join(work, f"shard{s}.ndjson")
        with open(p, "w") as f:
            for e in chunk:
                f.write(json.dumps(e, separators=(",", ":")) + "\n")
        jobs.append((s, p, os.path.join(work, f"w{s}")))
    verdicts = []
    states = trans = 0
    t = time.time()
    LAST_INFOS.clear()
    with cf.ThreadPoolExecutor(max_workers=MAX_JVMS) as ex:
        futs = {ex.submit(run_trace_shard, module, p, w, deque): s for (s, p, w) in jobs}
        for fu in cf.as_completed(futs):
            s = futs[fu]
            out = fu.result()
            st, gen = parse_tlc_stats(out)
            states += st
            trans += max(gen - 1, 0)
            for tup in collect_tuples(out):
                if tup.startswith('<<"TRACE-NOT-CONSUMED"'):
                    raise ToolError(f"trace shard {s} not consumed: {tup}")
                if tup.startswith('<<"INFO"'):
                    mi = re.match(r'<<"INFO", "([^"]+)", (\d+), "([^"]*)">>', tup)
                    if mi:
                        LAST_INFOS.append({"kind": mi.group(1), "index": offsets[s] + int(mi.group(2)) - 1, "what": mi.group(3)})
                    continue
                m = _verdict.match(tup)
                if tup.startswith('<<"VERDICT"'):
                    if not m:
                        raise ToolError(f"unparsable VERDICT: {tup}")
                    verdicts.append({"index": offsets[s] + int(m.group(1)) - 1, "cls": m.group(2),
                                     "pairs": _pair.findall(m.group(3))})
    log(f"[tlc] {module} {name}: {n} events, {len(jobs)} shards, {len(verdicts)} verdicts, {time.time()-t:.1f}s")
    verdicts.sort(key=lambda v: v["index"])
    return verdicts, states, trans


MODEL_DEPS = {"MC_Crc": ["Bits", "Crc", "MC_Crc"], "MC_ModeAC": ["ModeAC", "MC_ModeAC"], "MC_CPR": ["CPR", "MC_CPR"],
              "MC_Tracker": ["Tracker", "MC_Tracker"]}


def spec_hash(module=None):
    h = hashlib.sha256()
    only = None
    if module in MODEL_DEPS:
        only = {m + ext for m in MODEL_DEPS[module] for ext in (".tla", ".cfg")}
    for fn in sorted(os.listdir(SPEC)):
        if only is not None and fn not in only and not (fn.startswith(module) and fn.endswith(".cfg")):
            continue
        if fn.endswith((".tla", ".cfg")):
            h.update(fn.encode())
            h.update(open(os.path.join(SPEC, fn), "rb").read())
    return h.hexdigest()[:16]


def run_mc(module, cfg=None, workers=8, timeout=1800, xmx="8g", cache=True, extra_args=None, env_extra=None):
    """Step D: model-check an MC_* module; result cached by the hash of spec/ (it does not depend
    on /repo). Returns dict(ok, states, transitions, output, violated)"""
    cfg = cfg or module
    key = f"{module}-{cfg}-{spec_hash(module)}"
    cdir = os.path.join(BUILD, "stepd")
    os.makedirs(cdir, exist_ok=True)
    cpath = os.path.join(cdir, key + ".json")
    if cache and os.path.exists(cpath):
        return json.load(open(cpath))
    work = os.path.join(BUILD, "work", "mc-" + module + "-" + cfg)
    sh(["rm", "-rf", work])
    os.makedirs(work, exist_ok=True)
    cmd = java_cmd(xmx=xmx, tiered=False) + ["-workers", str(workers), "-metadir", os.path.join(work, "meta"), "-cleanup",
                                             "-noGenerateSpecTE", "-config", os.path.join(SPEC, cfg + ".cfg")]
    cmd += (extra_args or []) + [os.path.join(SPEC, module + ".tla")]
    env = dict(os.environ)
    if env_extra:
        env.update(env_extra)
    t = time.time()
    try:
        r = subprocess.run(cmd, cwd=work, env=env, stdout=subprocess.PIPE, stderr=subprocess.STDOUT, text=True, timeout=timeout)
    except subprocess.TimeoutExpired:
        raise ToolError(f"TLC timed out on {module}")
    out = r.stdout
    ok = "Model checking completed. No error has been found." in out
    if extra_args and "-simulate" in extra_args:
        ok = ("Error:" not in out) and ("violated" not in out) and ("The number of states generated" in out or "states generated" in out or "Finished in" in out)
    violated = re.findall(r"Invariant (\w+) is violated|property (\w+) was violated", out)
    if "Temporal properties were violated" in out:
        violated.append(("temporal_property", ""))
    if not ok and not violated:
        raise ToolError(f"TLC failed on {module}:\n{out[-3000:]}")
    st, gen = parse_tlc_stats(out)
    msim = re.search(r"The number of states generated: (\d+)", out)
    if msim and st == 0:
        st = gen = int(msim.group(1))
    res = {"ok": ok, "states": st, "transitions": max(gen - 1, 0), "violated": [a or b for a, b in violated],
           "wall_s": round(time.time() - t, 1), "output_tail": out[-1500:], "tuples": collect_tuples(out)[:120000]}
    log(f"[tlc] MC {module}/{cfg}: ok={ok} states={st} {res['wall_s']}s")
    if cache:
        json.dump(res, open(cpath, "w"))
    return res


# ------------------------------------------------------------------------------------------------
# known findings, verdict attribution, evidence, exit status

def load_known():
    p = os.path.join(VERIF, "known_findings.json")
    if not os.path.exists(p):
        return []
    return json.load(open(p))


def finding_matches(entry, prop, cls, field):
    if entry.get("status") != "open" or entry.get("property") != prop:
        return False
    if "class_re" in entry:
        if not re.fullmatch(entry["class_re"], cls):
            return False
    elif entry.get("class") != cls:
        return False
    if "fields" in entry and field not in entry["fields"]:
        return False
    return True


class Report:
    """collects what one check run observed and turns it into stdout lines, replay files, the
    evidence file and the exit status"""

    def __init__(self, prop, tier, seed):
        self.prop, self.tier, self.seed = prop, tier, seed
        self.t0 = time.time()
        self.states = 0
        self.transitions = 0
        self.traces = 0
        self.samples = []
        self.extra = {}
        self.violations = []        # (cls, field, replay dict)
        self.known_hits = {}        # what -> count
        self.other = {}             # owner -> count (mismatches owned by other properties)
        self.drift = set()
        self.assumptions = []
        self.exhaustive = None
        self.known = load_known()

    def add_model(self, res, label):
        self.states += res["states"]
        self.transitions += res["transitions"]
        self.extra.setdefault("step_d", {})[label] = {k: res[k] for k in ("ok", "states", "transitions", "wall_s", "violated")}

    def add_trace_stats(self, states, trans, traces):
        self.states += states
        self.transitions += trans
        self.traces += traces

    def mismatch(self, owner, cls, field, replay):
        """one disagreeing field of one event"""
        if owner != self.prop:
            self.other[owner] = self.other.get(owner, 0) + 1
            if owner == "I" and field not in self.drift:
                self.drift.add(field)
                print(f"MODEL-DRIFT: opaque field {field} differs from the implementation-shaped description ({cls}); no listed property constrains it")
            return
        for e in self.known:
            if finding_matches(e, owner, cls, field):
                self.known_hits[e["what"]] = self.known_hits.get(e["what"], 0) + 1
                return
        self.violations.append((cls, field, replay))

    def finish(self):
        apps_mod = sys.modules.get("apps")
        if apps_mod is not None and getattr(apps_mod, "INTERFERENCE", None):
            raise ToolError("client processes were terminated by SIGTERM from outside the check (%d: %s ...): nothing is concluded from "
                            "this run - run it again while nothing else signals the clients"
                            % (len(apps_mod.INTERFERENCE), ", ".join(apps_mod.INTERFERENCE[:3])))
        # one replay file and one VIOLATION line per distinct (class, field); the first witness is kept
        seen = {}
        for cls, field, replay in self.violations:
            seen.setdefault((cls, field), []).append(replay)
        lines = []
        rdir = os.path.join(VERIF, "replays", self.prop)
        for (cls, field), reps in sorted(seen.items()):
            os.makedirs(rdir, exist_ok=True)
            body = {"property": self.prop, "class": cls, "field": field, "count": len(reps), "witness": reps[0]}
            h = hashlib.sha256(json.dumps([cls, field, reps[0]], sort_keys=True).encode()).hexdigest()[:12]
            path = os.path.join(rdir, f"{h}.json")
            json.dump(body, open(path, "w"), indent=1)
            lines.append(f"VIOLATION property={self.prop} replay={path}")
        for what, n in sorted(self.known_hits.items()):
            print(f"KNOWN-FINDING: property={self.prop} {what} ({n} observations)")
        for l in lines:
            print(l)
        cov = {"states": max(self.states, 0), "transitions": max(self.transitions, 0),
               "traces_validated_against_impl": self.traces, "samples": self.samples[:6] or ["(none)"],
               "known_findings_matched": self.known_hits, "mismatches_owned_by_other_properties": self.other,
               "violation_classes": [f"{c}|{f}" for (c, f) in sorted(seen)]}
        if self.exhaustive is not None:
            cov["exhaustive"] = self.exhaustive
        cov.update(self.extra)
        ev = {"property_id": self.prop, "tier": self.tier, "seed": self.seed, "level": "model_checking", "coverage": cov,
              "assumptions": self.assumptions, "wall_s": round(time.time() - self.t0, 1), "violations": len(seen)}
        os.makedirs(os.path.join(VERIF, "evidence"), exist_ok=True)
        json.dump(ev, open(os.path.join(VERIF, "evidence", f"{self.prop}.json"), "w"), indent=1)
        sys.stdout.flush()
        return 1 if seen else 0


# ------------------------------------------------------------------------------------------------
# anti-vacuity: corrupt one recorded field and require TLC to flag exactly that event

def anti_vacuity(rep, module, events, mutations, boundary=None, name="selftest"):
    """mutations: list of (index, mutate(event) -> corrupted copy, owner).  Each corruption is applied to its own copy of
    `events`; TLC must print a verdict for that event owned by `owner`.  A corruption that goes unnoticed means the
    trace specification does not constrain that field: a tool error (the machinery cannot be believed)."""
    import copy
    flagged = 0
    detail = []
    for k, (idx, mut, owner) in enumerate(mutations):
        evs = list(events)
        evs[idx] = mut(copy.deepcopy(events[idx]))
        verdicts, _, _ = validate_events(module, evs, f"{name}-{k}", shards=1, boundary=boundary)
        hit = [v for v in verdicts if v["index"] == idx and any(o == owner for o, _ in v["pairs"])]
        detail.append({"event": idx, "owner": owner, "flagged": bool(hit), "fields": sorted({f for v in hit for _, f in v["pairs"]})})
        if hit:
            flagged += 1
    rep.extra.setdefault("anti_vacuity", []).extend(detail)
    if flagged != len(mutations):
        raise ToolError(f"anti-vacuity: {len(mutations) - flagged} corrupted recording(s) were not flagged by {module}: {detail}")
    return flagged
