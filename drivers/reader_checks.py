"""C19: decoding from a seekable reader is independent of read fragmentation and transient errors.
Step D: MC_Reader explores every schedule (bounded numbers of short reads / Interrupted errors) of the read/seek
programs observed from reference runs of the real decoder and checks the checksum-window invariants (Level A).
Step C: every schedule of the bounded model is replayed through a scripted reader on real frames of that shape
(spec -> impl), random schedules on random frames are recorded (impl -> spec); Trace_Reader judges them."""
import json
import os
import random
import re
import subprocess

import core
import gen
from gen import es_frame, rnd_frame, setf


def shapes(rng):
    """one representative frame per read/seek program shape"""
    out = []
    for df in (0, 4, 5, 11, 16, 19):
        out.append((f"df{df}", rnd_frame(rng, df)))
    for tc in (0, 1, 5, 9, 19, 23, 24, 25, 28, 29, 30):
        out.append((f"df17tc{tc}", es_frame(rng, 17, tc)))
    for st in (0, 1, 2):
        out.append((f"df17tc31st{st}", es_frame(rng, 17, 31, st31=st)))
    b = es_frame(rng, 17, 19); setf(b, 37, 3, 3); out.append(("df17tc19st3", b))
    b = es_frame(rng, 17, 19); setf(b, 37, 3, 0); out.append(("df17tc19st0", b))
    for ca in (0, 2, 7):
        b = es_frame(rng, 17, 11); setf(b, 5, 3, ca); out.append((f"df17ca{ca}", b))
    out.append(("df18tc11", es_frame(rng, 18, 11)))
    out.append(("df18tc4", es_frame(rng, 18, 4)))
    for first in (0x00, 0x10, 0x20, 0x77):
        for df in (20, 21):
            b = rnd_frame(rng, df); b[4] = first; out.append((f"df{df}bds{first:02x}", b))
    for dr in (0, 1, 9):
        b = rnd_frame(rng, 4); setf(b, 8, 5, dr); out.append((f"df4dr{dr}", b))
    for df in (24, 27, 31):
        out.append((f"df{df}", rnd_frame(rng, df)))
    return out


def hx_reader(hx, inputs):
    """a decode that does not return within 3 s is data (outcome `timeout`), not a tool failure: the recorder's watchdog ends
    the process with status 3 naming the input, the run resumes after it"""
    payload = "\n".join(json.dumps(x, separators=(",", ":")) for x in inputs) + "\n"
    ev, skip = [], 0
    while True:
        r = subprocess.run([hx, "reader", "--skip", str(skip)], input=payload, stdout=subprocess.PIPE, stderr=subprocess.PIPE, text=True, timeout=1800)
        ev += [json.loads(l) for l in r.stdout.splitlines() if l.strip()]
        if r.returncode == 0:
            break
        m = re.search(r"HX-TIMEOUT index=(\d+)", r.stderr) if r.returncode == 3 else None
        if not m:
            raise core.ToolError(f"hx reader failed rc={r.returncode} after {len(ev)} events: " + r.stderr[-2000:])
        idx = int(m.group(1))
        x = inputs[idx]
        ev.append({"ev": "rdecode", "bytes": x["bytes"], "script": x.get("script", []), "calls": [], "consumed": 0, "out": {"ok": 2}, "outcome": "panic",
                   "timeout": 1, "hard": 0, "plain": {"ok": 2}, "again": {"ok": 2}, "tag": x.get("tag", "")})
        skip = idx + 1
        if skip >= len(inputs):
            break
    if len(ev) != len(inputs):
        raise core.ToolError("reader recorder lost events")
    return ev


def merge(calls):
    """completed operations of a reference (unscripted) run"""
    ops = []
    for c in calls:
        if c[0] == "s":
            if c[1] == 1 and c[2] == 0:
                continue                      # position query (seek by 0): not an operation of the program
            if c[1] != 1 or c[2] >= 0:
                raise core.ToolError(f"unexpected seek in reference run: {c}")
            ops.append({"op": "s", "n": -c[2]})
        else:
            if c[2] != c[1]:
                raise core.ToolError(f"short read in reference run: {c}")
            ops.append({"op": "r", "n": c[1]})
    return ops


def run(prop, tier, seed, rep):
    rng = random.Random(seed * 1000003 + 19)
    hx = core.build_hx("std")
    sh = shapes(rng)
    # where the programs come from: DekuBits.tla predicts the read/seek calls of every shape from the type definitions
    import bits_checks
    bits_checks.run_binding(rep, random.Random(seed * 7 + 1))
    # reference programs
    ref = hx_reader(hx, [{"bytes": list(b), "script": [], "tag": name} for name, b in sh])
    progs = []
    outside = []
    for (name, b), e in zip(sh, ref):
        try:
            ops = merge(e["calls"])
        except core.ToolError as x:
            # what the program under test does is data: a decode whose calls are not in the model's alphabet (relative
            # seek-backs and whole reads) is left out of the model and said so; its effects are judged on the recordings
            outside.append((name, str(x)))
            progs.append(None); progs.append(None)
            continue
        df = b[0] >> 3
        flen = gen.flen(df)
        # DF19 and DF20 keep no parity field in their struct: their last read is read_crc pulling the rest of
        # the frame, which the model's Finish step does itself
        if df in (19, 20) and ops and ops[-1]["op"] == "r":
            ops = ops[:-1]
        progs.append({"name": name, "prog": ops, "len": flen, "flen": flen})
        progs.append({"name": name + "+tail", "prog": ops, "len": flen + 3, "flen": flen})
    for name, x in outside[:5]:
        print(f"MODEL-DRIFT: the reference decode of {name} is outside the reader model: {x}")
    rep.extra["reference_programs_outside_the_model"] = len(outside)
    # (keep positions: the model names programs by index)
    filler = next((p for p in progs if p is not None), None)
    if filler is None:
        raise_later = True
        progs = []
    else:
        raise_later = False
        progs = [p if p is not None else dict(filler, name="(left out)") for p in progs]
    work = os.path.join(core.BUILD, "work", "reader")
    os.makedirs(work, exist_ok=True)
    ppath = os.path.join(work, "progs.ndjson")
    with open(ppath, "w") as f:
        for p in progs:
            f.write(json.dumps({k: p[k] for k in ("prog", "len", "flen")}) + "\n")
    envs = {"PROGS": ppath, "WRAPPER": "position", "MAXEINTR": "1" if tier == "quick" else "2", "MAXSHORT": "1" if tier == "quick" else "2"}
    if raise_later:
        # no decode at all fits the model: nothing to model-check, the recordings below still speak
        res = {"ok": True, "tuples": [], "states": 0, "transitions": 0, "violated": [], "wall_s": 0, "output_tail": ""}
    else:
        res = core.run_mc("MC_Reader", workers=8, timeout=3000, cache=False, env_extra=envs)
    rep.add_model(res, "MC_Reader(position wrapper)")
    if not res["ok"]:
        # Level A fails on the model of the current code: report with the counterexample behaviour
        rep.mismatch("C19", "reader|model", "window", {"kind": "model", "violated": res["violated"], "tail": res["output_tail"][-800:]})
    if tier == "thorough" and not raise_later:
        # anti-vacuity: the original flag wrapper must violate WindowCorrect in the same bounded model
        envs2 = dict(envs, WRAPPER="flag")
        r2 = core.run_mc("MC_Reader", workers=8, timeout=3000, cache=False, env_extra=envs2)
        rep.extra["flag_wrapper_model_violates_WindowCorrect"] = (not r2["ok"]) and "LevelA" in r2["violated"]
        if r2["ok"]:
            raise core.ToolError("anti-vacuity: the flag-wrapper model no longer violates WindowCorrect")
    # spec -> impl: every complete behaviour of the bounded model
    inputs = []
    nsched = 0
    for t in res.get("tuples", []):
        m = re.match(r'<<"REPLAY", (\d+), "(\w+)", <<(.*)>>>>$', t)
        if not m:
            continue
        pid = int(m.group(1)) - 1
        sched = [int(x) for x in m.group(3).split(",") if x.strip()]
        name, b = sh[pid // 2]
        data = bytearray(b) + (bytearray(rng.getrandbits(8) for _ in range(3)) if pid % 2 else bytearray())
        inputs.append({"bytes": list(data), "script": sched, "tag": "model", "between": []})
        nsched += 1
    # impl -> spec: random schedules over random frames of every format, truncated and over-long buffers included
    for _ in range(2000 if tier == "quick" else 60000):
        df = rng.choice(sorted(gen.SUPPORTED) + [1, 22])
        b = es_frame(rng, df) if df in (17, 18) else rnd_frame(rng, df)
        if df in (20, 21) and rng.random() < 0.5:
            b[4] = rng.choice((0x00, 0x10, 0x20))
        if rng.random() < 0.15:
            b = b[:rng.randrange(0, len(b) + 1)]
        elif rng.random() < 0.15:
            b = b + bytearray(rng.getrandbits(8) for _ in range(rng.randrange(1, 9)))
        script = [rng.choice((0, 0, 1, 1, 2, 3, 20, 20, 20)) for _ in range(rng.randrange(0, 40))]
        between = [list(rnd_frame(rng, rng.choice(sorted(gen.SUPPORTED)))) for _ in range(rng.randrange(0, 4))]
        inp = {"bytes": list(b), "script": script, "tag": "random", "between": between}
        r = rng.random()
        if r < 0.25:
            inp["prefix"] = rng.choice((1, 2, 3, 7, 14, 100))          # the frame does not start at position 0 of the reader
            inp["tag"] = "prefix"
        elif r < 0.4 and len(b) in (7, 14) and len(b) == gen.flen(b[0] >> 3):
            inp["chain"] = 1                                            # two frames back to back from one reader
            inp["tag"] = "chain"
            if rng.random() < 0.5:
                inp["prefix"] = rng.choice((1, 5, 14))
        # the frame sits far into a long stream (absolute positions beyond 2^31, 2^32, 2^33)
        if rng.random() < 0.15:
            # ... including the positions from which the frame straddles a multiple of 2^32
            inp["base"] = rng.choice(([1, 2147483600], [2, 0], [2, 17], [5, 123], [1023, 99], [1, 2147483647], [1, 2147483646], [1, 2147483645],
                                      [1, 2147483644], [1, 2147483641], [3, 2147483647], [3, 2147483645], [1, 2147483635],
                                      # ... and of 2^63 (signed 64-bit arithmetic), and far beyond it
                                      [4294967295, 2147483647], [4294967295, 2147483646], [4294967295, 2147483645], [4294967295, 2147483644],
                                      [4294967295, 2147483630], [4294967296, 5], [8589934590, 77]))
            inp["tag"] = "far"
        # a failure that is not transient: one read (script entry -1) or the n-th seek fails for good
        if rng.random() < 0.1:
            if rng.random() < 0.5:
                inp["script"] = inp["script"][:rng.randrange(0, 12)] + [-1]
            else:
                inp["fail_seek"] = rng.randrange(1, 6)
            inp["tag"] = "hard"
        inputs.append(inp)
    events = hx_reader(hx, inputs)
    # reference calls for drift detection (the same bytes, unscripted)
    refs = hx_reader(hx, [{"bytes": x["bytes"], "script": [], "tag": "ref", "prefix": x.get("prefix", 0), "chain": x.get("chain", 0), "base": x.get("base", [0, 0])} for x in inputs])
    for e, r in zip(events, refs):
        e["ref"] = r["calls"]
    verdicts, st, tr = core.validate_events("Trace_Reader", events, prop)
    rep.add_trace_stats(st, tr, len(events))
    summary = {}
    for v in verdicts:
        ev = events[v["index"]]
        for owner, field in v["pairs"]:
            k = f"{owner}|{v['cls']}|{field}"
            summary.setdefault(k, [0, bytes(ev["bytes"]).hex(), ev["script"]])[0] += 1
            rep.mismatch(owner, v["cls"], field, {"kind": "reader", "bytes": ev["bytes"], "hex": bytes(ev["bytes"]).hex(),
                                                  "script": ev["script"], "between": inputs[v["index"]]["between"],
                                                  "prefix": inputs[v["index"]].get("prefix", 0), "chain": inputs[v["index"]].get("chain", 0),
                                                  "base": inputs[v["index"]].get("base", [0, 0]), "fail_seek": inputs[v["index"]].get("fail_seek", 0),
                                                  "out": ev["out"], "plain": ev["plain"]})
    json.dump(summary, open(os.path.join(core.BUILD, f"last_{prop}_verdicts.json"), "w"), indent=1, sort_keys=True)
    if tier == "thorough":
        idx = next(i for i, e in enumerate(events) if e["outcome"] == "ok" and "crc" in e["out"])
        core.anti_vacuity(rep, "Trace_Reader", events[:idx + 10], [(idx, lambda e: (e["out"].update(crc=e["out"]["crc"] ^ 1), e)[1], "C19")], name="C19-selftest")
    rep.extra["decodes_with_hard_failure"] = sum(1 for e in events if e["hard"] > 0)
    interrupted = sum(1 for e in events if any(c[0] == "r" and c[2] == -1 for c in e["calls"]))
    shortr = sum(1 for e in events if any(c[0] == "r" and 0 <= c[2] < c[1] for c in e["calls"]))
    rep.extra.update({"program_shapes": [n for n, _ in sh], "model_schedules_replayed": nsched, "random_schedules": len(events) - nsched,
                      "decodes_with_interrupted_error": interrupted, "decodes_with_short_read": shortr,
                      "model_drift": len(core.LAST_INFOS)})
    rep.samples = ([{"program": progs[6]["name"], "ops": progs[6]["prog"]}] if len(progs) > 6 else []) + \
                  [{k: events[0][k] for k in ("bytes", "script", "calls", "outcome")}]
    rep.assumptions += ["read/seek programs are taken from reference runs of the real decoder (one per frame shape); the model covers the inner reader, the retry loops and the caching wrapper",
                        "the last read of DF19/DF20 reference runs is attributed to read_crc"]
