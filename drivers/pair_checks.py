"""C05: CPR global decoding. `pair` events (seeded generators) and the exhaustive NL walk are judged by
TLC against spec/CPR.tla (Trace_Pair)."""
import math
import random
import subprocess
import json

import core

P17 = 131072


def nl_closed(lat):
    """closed form of NL (used only to *aim* inputs at zone transitions and to encode test positions)"""
    a = abs(lat)
    if a >= 87.0:
        return 1
    if a == 0:
        return 59
    x = 1 - (1 - math.cos(math.pi / 30)) / (math.cos(math.radians(a)) ** 2)
    return int(math.floor(2 * math.pi / math.acos(x)))


def transition_lat(n):
    """latitude at which NL drops from n to n-1, n in 2..59"""
    return math.degrees(math.acos(math.sqrt((1 - math.cos(math.pi / 30)) / (1 - math.cos(2 * math.pi / n)))))


def encode(lat, lon, odd):
    dlat = 360.0 / (60 - odd)
    yz = math.floor(P17 * ((lat % dlat) / dlat) + 0.5)
    rlat = dlat * (yz / P17 + math.floor(lat / dlat))
    n = max(nl_closed(rlat) - odd, 1)
    dlon = 360.0 / n
    xz = math.floor(P17 * ((lon % dlon) / dlon) + 0.5)
    return int(yz) % P17, int(xz) % P17


def inputs(rng, tier):
    q = (lambda a, b: a if tier == "quick" else b)
    out = []

    def add(tag, first, second):
        out.append({"tag": tag, "first": list(first), "second": list(second)})

    def both_orders(tag, lat, lon, lat2=None, lon2=None):
        lat2 = lat if lat2 is None else lat2
        lon2 = lon if lon2 is None else lon2
        e = encode(lat, lon, 0)
        o = encode(lat2, lon2, 1)
        add(tag, (0,) + e, (1,) + o)
        e2 = encode(lat2, lon2, 0)
        o2 = encode(lat, lon, 1)
        add(tag, (1,) + o2, (0,) + e2)

    # random true positions, same place in both reports
    for _ in range(q(3000, 150000)):
        lat = math.degrees(math.asin(rng.uniform(-1, 1)))
        lon = rng.uniform(-180, 180)
        both_orders("enc", lat, lon)
    # small displacement between the two reports (up to 3 NM = 0.05 degrees of arc)
    for _ in range(q(3000, 150000)):
        lat = rng.uniform(-89.9, 89.9)
        lon = rng.uniform(-180, 180)
        d = rng.uniform(0, 0.05)
        th = rng.uniform(0, 2 * math.pi)
        lat2 = max(-90, min(90, lat + d * math.cos(th)))
        lon2 = lon + d * math.sin(th) / max(math.cos(math.radians(lat)), 0.05)
        lon2 = (lon2 + 180) % 360 - 180
        both_orders("disp", lat, lon, lat2, lon2)
    # special places
    for _ in range(q(400, 20000)):
        both_orders("pole", rng.choice((-1, 1)) * rng.uniform(86.5, 90), rng.uniform(-180, 180))
        both_orders("equator", rng.uniform(-0.01, 0.01), rng.uniform(-180, 180))
        # in the polar caps and the rings around them (one, one or two longitude zones: both reports' zone counts clamp to
        # the same value) an aircraft that moved between its two reports: the longitude is the second report's
        plat = rng.choice((-1, 1)) * rng.uniform(86.6, 89.95)
        pdl = rng.uniform(-1, 1) * 0.045 / math.cos(math.radians(plat))
        plon = rng.uniform(-180, 180)
        both_orders("poledisp", plat, plon, max(-89.99, min(89.99, plat + rng.uniform(-0.01, 0.01))), (plon + pdl + 540) % 360 - 180)
        both_orders("anti", rng.uniform(-89, 89), rng.choice((-1, 1)) * rng.uniform(179.99, 180) % 360 - (360 if rng.random() < 0.5 else 0))
        both_orders("meridian", rng.uniform(-89, 89), rng.uniform(-0.01, 0.01))
        # one report just north of the equator, the other just south of it (either parity on either side)
        lon = rng.uniform(-180, 180)
        both_orders("eqcross", rng.uniform(0.00005, 0.04), lon, -rng.uniform(0.00005, 0.04), lon)
        both_orders("eqcross", -rng.uniform(0.00005, 0.04), lon, rng.uniform(0.00005, 0.04), lon)
    # across a pole: one report's latitude decodes just beyond +-90 (no such place), the other's just inside; either order,
    # either report the latest one - the pair cannot stem from one location
    for _ in range(q(300, 6000)):
        s = rng.choice((-1, 1))
        lon = rng.uniform(-180, 180)
        inside, beyond = s * (90 - rng.uniform(0.0005, 0.04)), s * (90 + rng.uniform(0.0005, 0.04))
        for lat_e, lat_o in ((beyond, inside), (inside, beyond)):
            e, o = encode(lat_e, lon, 0), encode(lat_o, lon, 1)
            add("beyondpole", (0,) + e, (1,) + o)
            add("beyondpole", (1,) + o, (0,) + e)
    # exactly on the 180-degree meridian (the returned longitude is -180, never +180)
    for _ in range(q(60, 1500)):
        lat = rng.choice((0.0, 89.0, -89.0, 66.0, -33.0, 52.0, 10.0, 30.5, 86.8, rng.uniform(-89.9, 89.9)))
        both_orders("anti180", lat, rng.choice((180.0, -180.0)))
    for n in range(2, 60):
        t = transition_lat(n)
        for _ in range(q(12, 400)):
            s = rng.choice((-1, 1))
            both_orders("nltrans", s * (t + rng.uniform(-0.002, 0.002)), rng.uniform(-180, 180))
    # the inside of every longitude-zone band (NL = 59 .. 1), both hemispheres, away from the prime meridian (a wrong zone
    # count shows in the longitude only)
    for n in range(1, 60):
        lo = transition_lat(n + 1) if n < 59 else 0.0          # NL = n between the drop to n (coming from n + 1) ...
        hi = transition_lat(n) if n >= 2 else 89.5            # ... and the drop to n - 1
        for _ in range(q(1, 20)):
            for s_ in (-1, 1):
                lat = s_ * (lo + (hi - lo) * rng.uniform(0.2, 0.8))
                both_orders("nlband", lat, rng.choice((-1, 1)) * rng.uniform(20, 175))
    # zone rows: every latitude zone of both grids at boundary offsets
    for zone in range(-15, 15):
        for off in (0.0, 1e-7, 0.5, 5.999999, 3.0):
            for lon in (-180.0, -90.0, 0.0, 179.999):
                lat = max(-90.0, min(90.0, zone * 6.0 + off))
                both_orders("zonerow", lat, lon)
    # raw quadruples: random, boundary values
    for _ in range(q(4000, 300000)):
        a = [rng.randrange(P17) for _ in range(4)]
        p = rng.randrange(2)
        add("raw", (p, a[0], a[1]), (1 - p, a[2], a[3]))
    B = [0, 1, 2, 65535, 65536, 65537, 131070, 131071]
    for a in B:
        for b in B:
            for c in B:
                for d in (B if tier != "quick" else [0, 65536, 131071]):
                    for p in (0, 1):
                        add("bnd", (p, a, b), (1 - p, c, d))
    # rounding ties of the two zone-index computations floor(x + 1/2): 59*YZ0 - 60*YZ1 and XZ0*(NL-1) - XZ1*NL equal to an
    # odd multiple of 2^16, positive and negative, and their neighbours
    def solve(ca, cb, t):
        """a, b in 0..2^17-1 with ca*a - cb*b = t (ca, cb coprime), a few solutions"""
        sols = []
        for a in range(0, P17):
            if (ca * a - t) % cb == 0:
                b_ = (ca * a - t) // cb
                step = cb
                while a < P17 and len(sols) < 6:
                    if 0 <= b_ < P17:
                        sols.append((a, b_))
                    a += step * rng.randrange(1, 300)
                    b_ = (ca * a - t) // cb if (ca * a - t) % cb == 0 else -1
                break
        return sols
    ties = 0
    for k in list(range(-8, 8)) + [rng.randrange(-59, 59) for _ in range(q(6, 60))]:
        t = (2 * k + 1) * 65536
        for (a, b_) in solve(59, 60, t):
            for da, db in ((0, 0), (1, 0), (0, 1), (-1, 0)):
                a2, b2 = (a + da) % P17, (b_ + db) % P17
                x = rng.randrange(P17)
                add("tie", (0, a2, x), (1, b2, x))
                add("tie", (1, b2, x), (0, a2, x))
                ties += 1
    for nl in [59, 58, 40, 20, 9, 3, 2] + [rng.randrange(2, 60) for _ in range(q(4, 40))]:
        # a latitude with that many zones, identical in both reports; longitudes on a tie of m
        lat = 0.0 if nl == 59 else (transition_lat(nl + 1) + transition_lat(nl)) / 2 if nl > 1 else 88.0
        if nl_closed(lat) != nl:
            continue
        e0, o0 = encode(lat, 0.0, 0), encode(lat, 0.0, 1)
        for k in list(range(-4, 4)):
            t = (2 * k + 1) * 65536
            for (a, b_) in solve(nl - 1, nl, t) if nl > 1 else []:
                for da in (0, 1, -1):
                    add("tie", (0, e0[0], (a + da) % P17), (1, o0[0], b_))
                    add("tie", (1, o0[0], b_), (0, e0[0], (a + da) % P17))
    # known witness of the missing consistency checks (raw pair decoding to latitude 269.96)
    add("raw", (0, 131070, 0), (1, 31823, 0))
    add("raw", (1, 31823, 0), (0, 131070, 0))
    # equal parity: never a position
    for _ in range(q(300, 5000)):
        a = [rng.randrange(P17) for _ in range(4)]
        p = rng.randrange(2)
        add("same", (p, a[0], a[1]), (p, a[2], a[3]))
    return out


def run(prop, tier, seed, rep):
    rng = random.Random(seed * 1000003 + 5)
    res = core.run_mc("MC_CPR", workers=8, timeout=3000)
    rep.add_model(res, "MC_CPR")
    if not res["ok"]:
        raise core.ToolError(f"MC_CPR fails on the specification itself: {res['violated']}")
    hx = core.build_hx("std")
    ins = inputs(rng, tier)
    # spec -> impl: the reports of every state of MC_CPR (both orders) are replayed through the real pairing function
    import re
    res2 = core.run_mc("MC_CPR", cfg="MC_CPR_replay", workers=8, timeout=3000)
    n_model = 0
    for t in res2["tuples"]:
        m = re.match(r'<<"REPLAY", <<(\d+), (\d+), (\d+), (\d+), (\d+)>>, <<(\d+), (\d+), (\d+), (\d+), (\d+)>>>>$', t)
        if m:
            g = [int(x) for x in m.groups()]
            for k in (0, 5):
                fo, la1, lo1, la2, lo2 = g[k:k + 5]
                ins.append({"tag": "model", "first": [fo, la1, lo1], "second": [1 - fo, la2, lo2]})
                n_model += 1
    rep.extra["pairs_from_MC_CPR_states"] = n_model
    r = subprocess.run([hx, "pair"], input="\n".join(json.dumps(x) for x in ins) + "\n", stdout=subprocess.PIPE,
                       stderr=subprocess.PIPE, text=True, timeout=1200)
    if r.returncode != 0:
        raise core.ToolError("hx pair failed: " + r.stderr[-2000:])
    events = [json.loads(l) for l in r.stdout.splitlines() if l.strip()]
    if len(events) != len(ins):
        raise core.ToolError("pair recorder lost events")
    r = subprocess.run([hx, "nlsweep"], stdout=subprocess.PIPE, stderr=subprocess.PIPE, text=True, timeout=1200)
    if r.returncode != 0:
        raise core.ToolError("hx nlsweep failed: " + r.stderr[-2000:])
    nl = [json.loads(l) for l in r.stdout.splitlines() if l.strip()]
    events += nl
    verdicts, st, tr = core.validate_events("Trace_Pair", events, prop)
    rep.add_trace_stats(st, tr, len(events))
    summary = {}
    for v in verdicts:
        ev = events[v["index"]]
        for owner, field in v["pairs"]:
            k = f"{owner}|{v['cls']}|{field}"
            summary.setdefault(k, [0, ev])[0] += 1
            rep.mismatch(owner, v["cls"], field, {"kind": "pair", "event": ev})
    import os
    json.dump(summary, open(os.path.join(core.BUILD, f"last_{prop}_verdicts.json"), "w"), indent=1, sort_keys=True)
    if tier == "thorough":
        idx = next(i for i, e in enumerate(events) if e["ev"] == "pair" and e["out"]["some"] == 1)
        core.anti_vacuity(rep, "Trace_Pair", events[:idx + 20], [(idx, lambda e: (e["out"].update(lat=e["out"]["lat"] + 12), e)[1], "C05")], name="C05-selftest")
    tags = {}
    for e in events:
        t = e.get("tag", e["ev"])
        tags[t] = tags.get(t, 0) + 1
    somes = sum(1 for e in events if e["ev"] == "pair" and e["out"]["some"] == 1)
    walked = {f"grid{e['grid']}": e["visited"] for e in nl if e["ev"] == "nlsum"}
    rep.extra.update({"events_by_generator": tags, "pairs_with_position": somes, "nl_walk_latitudes_visited": walked,
                      "nl_change_points_logged": sum(1 for e in nl if e["ev"] == "nlchg"),
                      "exhaustive_over": "longitude-zone count over every reachable latitude of both grids between -90 and 90 degrees (walk done by the recorder, change points judged by TLC)"})
    rep.samples = [events[0], events[len(ins) // 2], nl[0]]
    rep.assumptions += ["run-length compression of the NL walk (only change points are logged) is harness code",
                        "positions compared with a tolerance of 3 micro-degrees"]


def decode_ref(e, o, latest_odd):
    """reference global decode (exact rational arithmetic on the 17-bit values, closed-form NL): (lat, lon) in degrees or None"""
    from fractions import Fraction as F
    ye, xe, yo, xo = F(e[0], P17), F(e[1], P17), F(o[0], P17), F(o[1], P17)
    j = math.floor(59 * ye - 60 * yo + F(1, 2))
    lat_e = F(360, 60) * ((j % 60) + ye)
    lat_o = F(360, 59) * ((j % 59) + yo)
    if lat_e >= 270: lat_e -= 360
    if lat_o >= 270: lat_o -= 360
    if not (-90 <= lat_e <= 90 and -90 <= lat_o <= 90):
        return None
    if nl_closed(float(lat_e)) != nl_closed(float(lat_o)):
        return None
    lat = lat_o if latest_odd else lat_e
    nl = nl_closed(float(lat))
    ni = max(nl - (1 if latest_odd else 0), 1)
    m = math.floor(xe * (nl - 1) - xo * nl + F(1, 2))
    lon = F(360, ni) * ((m % ni) + (xo if latest_odd else xe))
    if lon >= 180: lon -= 360
    return float(lat), float(lon)
