#!/usr/bin/env python3
"""Every repaired defect, put back: for each `fixed` entry of known_findings.json whose commit still reverts cleanly, the
reverse patch is applied to /repo, the quick check of the entry's property must exit 1 with a VIOLATION line, and /repo
is restored.  Usage: regress.py [commit ...]   (writes regress_results.json; never run while a `vp run` is active)"""
import json, os, subprocess, sys, time
V = os.path.dirname(os.path.dirname(os.path.abspath(__file__)))


def sh(cmd, **kw):
    return subprocess.run(cmd, shell=True, stdout=subprocess.PIPE, stderr=subprocess.STDOUT, text=True, **kw)


def main():
    if sh("git -C /repo status --porcelain").stdout.strip():
        print("refusing: /repo has uncommitted changes"); return 2
    entries = [e for e in json.load(open(os.path.join(V, "known_findings.json"))) if e["status"] == "fixed" and e.get("commit")]
    by_commit = {}
    for e in entries:
        by_commit.setdefault(e["commit"], set()).add(e["property"])
    want = sys.argv[1:] or sorted(by_commit)
    out = {}
    for c in want:
        props = sorted(by_commit.get(c, []))
        patch = f"/tmp/regress_{c}.diff"
        sh(f"git -C /repo show {c} > {patch}")
        if sh(f"git -C /repo apply -R --check {patch}").returncode != 0:
            out[c] = {"reverts_cleanly": False, "properties": props}
            print(c, "does not revert cleanly (later commits touch the same lines)")
            os.remove(patch)
            continue
        sh(f"git -C /repo apply -R {patch}")
        res = {}
        try:
            for p in props:
                t = time.time()
                r = sh(f"./check {p} --tier quick", cwd=V)
                viol = [l for l in r.stdout.splitlines() if l.startswith("VIOLATION")]
                res[p] = {"exit": r.returncode, "violations": len(viol), "wall_s": round(time.time() - t, 1)}
                print(c, p, "exit", r.returncode, "violations", len(viol))
        finally:
            sh("git -C /repo checkout -- .")
            os.remove(patch)
        out[c] = {"reverts_cleanly": True, "subject": sh(f"git -C /repo log -1 --format=%s {c}").stdout.strip(), "checks": res,
                  "reported_again": all(v["exit"] == 1 and v["violations"] > 0 for v in res.values())}
    p = os.path.join(V, "regress_results.json")
    old = json.load(open(p)) if os.path.exists(p) else {}
    old.update(out)
    json.dump(old, open(p, "w"), indent=1)
    return 0


if __name__ == "__main__":
    sys.exit(main())
