"""C12-C15 (and the serde part of C20): the tracker.  Step D: MC_Tracker (bounded abstract model, invariants).
Step C: histories - one per distinct state of the bounded model (spec -> impl) and seeded random ones - are run
through the real Airplanes by `hx track`; the recording (complete projected state after every step) is judged by
TLC against Trace_Tracker, which instantiates the rules of Tracker.tla with CPR!GlobalDecode and Geo."""
import json
import math
import os
import random
import re
import subprocess

import core
import gen
from gen import setf
from pair_checks import encode

P17 = 131072


# ---------------------------------------------------------------------------------------------
# frame builders (inputs only)

def alt_code12(ft):
    if ft is None:
        return 0
    n = (ft + 1000) // 25
    return ((n & 0x7F0) << 1) | 0x10 | (n & 0xF)


def es(rng, addr, df=17, cf=None):
    b = bytearray(14)
    setf(b, 0, 5, df)
    setf(b, 5, 3, 5 if df == 17 else (rng.randrange(8) if cf is None else cf))
    setf(b, 8, 24, addr)
    return b


def f_ident(rng, addr, callsign, df=17, codes=None):
    """callsign: text; codes: eight raw 6-bit character codes instead (any of the 64, also the unassigned ones)"""
    b = es(rng, addr, df)
    setf(b, 32, 5, rng.randrange(1, 5))
    setf(b, 37, 3, rng.randrange(8))
    cs = (callsign + " " * 8)[:8]
    for k, ch in enumerate(cs):
        c = 32 if ch == " " else (ord(ch) - 64 if ch.isalpha() else ord(ch))
        setf(b, 40 + 6 * k, 6, c if codes is None else codes[k])
    return gen.with_parity(b)


def f_vel(rng, addr, ve, vn, vr, st=1, df=17):
    """ve, vn: raw 10-bit codes with direction bits (dir, raw); vr: (sign, raw)"""
    b = es(rng, addr, df)
    setf(b, 32, 5, 19)
    setf(b, 37, 3, st)
    setf(b, 40, 5, rng.randrange(32))
    setf(b, 45, 1, ve[0]); setf(b, 46, 10, ve[1]); setf(b, 56, 1, vn[0]); setf(b, 57, 10, vn[1])
    setf(b, 67, 1, rng.randrange(2)); setf(b, 68, 1, vr[0]); setf(b, 69, 9, vr[1])
    setf(b, 80, 1, rng.randrange(2)); setf(b, 81, 7, rng.randrange(128))
    return gen.with_parity(b)


def f_pos(rng, addr, lat, lon, odd, alt_ft=10000, df=17, tc=None, raw=None, alt_raw=None):
    b = es(rng, addr, df)
    tc = tc if tc is not None else rng.choice(list(range(9, 19)) + [20, 21, 22])
    setf(b, 32, 5, tc)
    setf(b, 37, 2, rng.randrange(4)); setf(b, 39, 1, rng.randrange(2))
    setf(b, 40, 12, alt_code12(alt_ft) if alt_raw is None else alt_raw)
    setf(b, 52, 1, rng.randrange(2)); setf(b, 53, 1, odd)
    yz, xz = raw if raw is not None else encode(lat, lon, odd)
    setf(b, 54, 17, yz); setf(b, 71, 17, xz)
    return gen.with_parity(b)


def f_other_me(rng, addr, df=17):
    b = gen.es_frame(rng, df, rng.choice((0, 5, 6, 23, 24, 25, 28, 29, 30, 31)))
    setf(b, 8, 24, addr)
    if df == 17:
        setf(b, 5, 3, 5)
    return gen.with_parity(b)


def f_other_df(rng, addr):
    df = rng.choice((0, 4, 5, 11, 16, 19, 20, 21, 24, 27))
    b = gen.rnd_frame(rng, df)
    if df in (11,) or df >= 24:
        setf(b, 8, 24, addr)
    return b


def move(lat, lon, bearing_deg, dist_km):
    """destination point on the sphere (used to place aircraft; not an oracle)"""
    R = 6371.0
    d = dist_km / R
    th = math.radians(bearing_deg)
    p1 = math.radians(lat)
    l1 = math.radians(lon)
    p2 = math.asin(math.sin(p1) * math.cos(d) + math.cos(p1) * math.sin(d) * math.cos(th))
    l2 = l1 + math.atan2(math.sin(th) * math.sin(d) * math.cos(p1), math.cos(d) - math.sin(p1) * math.sin(p2))
    return math.degrees(p2), (math.degrees(l2) + 540) % 360 - 180


RECEIVERS = [(52.0, 4.0), (0.0, 0.0), (-33.9, 151.2), (45.0, 179.9), (-45.0, -179.9), (80.0, 10.0), (89.9, 0.0), (-80.0, -120.0),
             (0.0, -179.95), (37.6, -122.4)]
RANGES_M = [50_000, 500_000, 5_000_000]


def frame_step(b):
    return {"op": "frame", "bytes": list(b)}


# ---------------------------------------------------------------------------------------------
# random histories

def random_history(rng, hid, steps, n_aircraft, with_time=True, with_serde=True):
    rx = rng.choice(RECEIVERS)
    rng_m = rng.choice(RANGES_M)
    addrs = rng.sample(range(1, 1 << 24), n_aircraft)
    # some aircraft share address bits to provoke mix-ups
    if n_aircraft > 2:
        addrs[1] = addrs[0] ^ 1
    planes = {}
    for a in addrs:
        brg = rng.uniform(0, 360)
        d = rng.choice((5, 40, 95, 99.5, 100.5, rng_m / 1000 * 0.999, rng_m / 1000 * 1.001, rng_m / 1000 * 0.5, rng_m / 1000 * 1.5))
        lat, lon = move(rx[0], rx[1], brg, d)
        planes[a] = {"lat": lat, "lon": lon, "brg": rng.uniform(0, 360), "alt": rng.choice((None, 0, 1000, 35000, 50175)),
                     "df": rng.choice((17, 17, 18))}
    out = []
    for _ in range(steps):
        a = rng.choice(addrs)
        p = planes[a]
        r = rng.random()
        if r < 0.45:
            # position report, usually after a small move; sometimes a jump, sometimes garbage
            k = rng.random()
            if k < 0.75:
                p["lat"], p["lon"] = move(p["lat"], p["lon"], p["brg"], rng.choice((0.0, 0.3, 2.0, 5.0)))
            elif k < 0.85:
                p["lat"], p["lon"] = move(p["lat"], p["lon"], rng.uniform(0, 360), rng.choice((99.0, 99.99, 100.01, 101.0, 150.0, 400.0)))
            # the altitude changes too - also while the position does not (a hovering or purely climbing target)
            if p["alt"] is not None and rng.random() < 0.3:
                p["alt"] = max(0, min(50175, p["alt"] + rng.choice((-2000, -100, 25, 100, 2000))))
            odd = rng.randrange(2)
            raw = (rng.randrange(P17), rng.randrange(P17)) if k >= 0.95 else None
            # the altitude field is sometimes any 12-bit code (Gillham codes, illegal patterns, the extremes): what the record
            # holds is what the decoder contract says about that code
            alt_raw = rng.choice((None, None, None, rng.randrange(4096), rng.choice((0, 1, 0x10, 0xFFF, 0xFEF, 0x28A, 0x7FF))))
            out.append(frame_step(f_pos(rng, a, p["lat"], p["lon"], odd, p["alt"], df=p["df"], raw=raw, alt_raw=alt_raw)))
        elif r < 0.55:
            cs = "".join(rng.choice("ABCXYZ019 ") for _ in range(rng.randrange(0, 9)))
            # sometimes any eight of the 64 character codes (unassigned ones, code 0 in front, all spaces, ...)
            codes = None
            if rng.random() < 0.3:
                codes = [rng.choice((rng.randrange(64), 0, 32, 31, 63, 58, 1, 48)) for _ in range(8)]
            out.append(frame_step(f_ident(rng, a, cs, df=p["df"], codes=codes)))
        elif r < 0.67:
            ve = (rng.randrange(2), rng.choice((0, 1, 2, 100, 500, 1023)))
            vn = (rng.randrange(2), rng.choice((0, 1, 2, 100, 500, 1023)))
            vr = (rng.randrange(2), rng.choice((0, 1, 2, 100, 511)))
            out.append(frame_step(f_vel(rng, a, ve, vn, vr, st=rng.choice((0, 1, 1, 1, 2, 3, 4)), df=p["df"])))
        elif r < 0.74:
            out.append(frame_step(f_other_me(rng, a, df=p["df"])))
        elif r < 0.82:
            out.append(frame_step(f_other_df(rng, a)))
        elif r < 0.84:
            out.append(frame_step(gen.rnd_frame(rng, rng.randrange(32), rng.randrange(0, 20))))
        elif r < 0.92 and with_time:
            out.append({"op": "tick", "secs": rng.choice((1, 1, 2, 5))})
        elif r < 0.97 and with_time:
            # (2e9 + k stands for u64::MAX - k: "never expire")
            out.append({"op": "prune", "T": rng.choice((0, 1, 2, 3, 5, 120, 120, 86400, 2000000000, 2000000001, 1 << 30))})
        elif with_serde:
            out.append({"op": "serde"})
    return {"id": hid, "rx": [round(rx[0] * 1e6), round(rx[1] * 1e6)], "range_m": rng_m, "steps": out}


def neighbour_history(rng, hid, with_serde=False, base=None):
    """addresses that differ in one bit from a common base (all ones, all zeros, a random one), each heard a few times,
    interleaved: any key derived from the address that is not injective merges two of them into one record"""
    base = base if base is not None else rng.choice((0xFFFFFF, 0x000000, rng.randrange(1 << 24)))
    addrs = [base] + [base ^ (1 << k) for k in range(24)]          # (the all-zero address included: unusual, legal)
    rx = RECEIVERS[0]
    order = [a for a in addrs for _ in range(2)]
    rng.shuffle(order)
    out = []
    for a in order:
        if with_serde and rng.random() < 0.08:
            out.append({"op": "serde"})
        if rng.random() < 0.6:
            out.append(frame_step(f_ident(rng, a, "N%05X" % (a & 0xFFFFF), df=rng.choice((17, 18)))))
        else:
            out.append(frame_step(f_other_me(rng, a, df=17)))
    return {"id": hid, "rx": [round(rx[0] * 1e6), round(rx[1] * 1e6)], "range_m": RANGES_M[0], "steps": out}


def tie_histories(rng, count):
    """aircraft whose even/odd reports sit on a rounding tie of a zone index (the pairing must pick the zone the standard's
    floor(x + 1/2) picks), heard by a receiver close to where the pair decodes: one short history per pair"""
    import pair_checks
    allp = pair_checks.inputs(random.Random(rng.getrandbits(32)), "quick")
    ties = [x for x in allp if x["tag"] == "tie"]
    rng.shuffle(ties)
    ties = ties[:count]
    # ... and a sample of every other special place the pairing knows: poles, equator, the 180-degree meridian, zone
    # transitions, zone rows, pairs that cannot stem from one location
    for tag in ("pole", "poledisp", "equator", "eqcross", "anti", "anti180", "meridian", "nltrans", "zonerow", "beyondpole", "disp"):
        xs = [x for x in allp if x["tag"] == tag]
        rng.shuffle(xs)
        if tag in ("pole", "poledisp"):
            # near the poles: both hemispheres of longitude, both caps, either report the latest one
            groups = {}
            for x in xs:
                e, o = (x["first"], x["second"]) if x["first"][0] == 0 else (x["second"], x["first"])
                pos = pair_checks.decode_ref((e[1], e[2]), (o[1], o[2]), x["second"][0] == 1)
                if pos is not None:
                    groups.setdefault((pos[0] < 0, pos[1] < 0, x["second"][0]), []).append(x)
            ties += [x for g in groups.values() for x in g[:2]]
            continue
        ties += xs[:max(4, count // 12)]
    # ... and every longitude-zone band of both hemispheres
    ties += [x for x in allp if x["tag"] == "nlband"]
    count = len(ties)
    out = []
    for i, t in enumerate(ties):
        if len(out) >= count:
            break
        first, second = t["first"], t["second"]
        e, o = (first, second) if first[0] == 0 else (second, first)
        pos = pair_checks.decode_ref((e[1], e[2]), (o[1], o[2]), second[0] == 1)
        rng_m = 300000
        if pos is None:
            # a pair that decodes nowhere: the record is cleared wherever the receiver is and however far it listens
            pos, rng_m = (0.0, 0.0), 21000000
        a = rng.randrange(1, 1 << 24)
        steps = [frame_step(f_pos(rng, a, 0, 0, first[0], 12000, raw=(first[1], first[2]))),
                 frame_step(f_pos(rng, a, 0, 0, second[0], 12000, raw=(second[1], second[2]))),
                 frame_step(f_ident(rng, a, "TIE%d" % i))]
        out.append({"id": f"tie{i}", "rx": [round(pos[0] * 1e6), round(pos[1] * 1e6)], "range_m": rng_m, "steps": steps})
    return out


def threshold_history(rng, hid):
    """flights along a meridian or the equator, where the great-circle distance is linear in the angle: both sides
    of the 100 km jump limit and of the range limit within metres"""
    rx = rng.choice([(0.0, 0.0), (0.0, 179.0), (10.0, 20.0), (60.0, -30.0), (-75.0, 100.0)])
    rng_m = rng.choice(RANGES_M[:2])
    kmdeg = 2 * math.pi * 6371.0 / 360.0
    out = []
    a = rng.randrange(1, 1 << 24)
    along_equator = rx[0] == 0.0 and rng.random() < 0.5
    for trial in range(6):
        base = rng.uniform(5, 30)
        limit_km = rng.choice((100.0, rng_m / 1000.0))
        delta_m = rng.choice((-60, -30, -20, 20, 30, 60, -500, 500))
        # first publication at `base` km from the receiver, second at a point exactly limit+delta from the reference
        def at(km):
            if along_equator:
                return (0.0, rx[1] + km / kmdeg)
            return (rx[0] + km / kmdeg, rx[1])
        p1 = at(base)
        ref = base if limit_km == 100.0 else 0.0
        p2 = at(ref + limit_km + delta_m / 1000.0)
        for (lat, lon) in (p1, p2):
            if abs(lat) > 89.9:
                continue
            lon = (lon + 540) % 360 - 180
            out.append(frame_step(f_pos(rng, a, lat, lon, 0, 10000)))
            out.append(frame_step(f_pos(rng, a, lat, lon, 1, 10000)))
        out.append({"op": "prune", "T": 0})
    return {"id": hid, "rx": [round(rx[0] * 1e6), round(rx[1] * 1e6)], "range_m": rng_m, "steps": out}


def silent_refresh_histories(rng, count):
    """an aircraft is heard, then - while it is silent - frames arrive that must not count for it: other downlink formats
    carrying its address bits (all-call replies, the formats 24-31), surveillance replies, squitters of other aircraft,
    undecodable bytes. The expiry that follows removes it exactly as if they had not come"""
    out = []
    for i in range(count):
        rx = RECEIVERS[0]
        a, b = rng.sample(range(1, 1 << 24), 2)
        T = rng.choice((2, 3, 5))
        early = rng.randrange(1, T)                  # the frames that do not count arrive `early` seconds before the expiry
        steps = [frame_step(f_ident(rng, a, "SIL%d" % i, df=rng.choice((17, 18))))]
        if rng.random() < 0.5:
            steps.append(frame_step(f_vel(rng, a, (0, 100), (1, 200), (0, 5))))
        steps.append({"op": "tick", "secs": T - early})
        for _ in range(rng.randrange(1, 4)):
            df = rng.choice((11, 24, 25, 26, 27, 28, 29, 30, 31, 24, 27, 0, 4, 5, 16, 19, 20, 21))
            fr = gen.rnd_frame(rng, df)
            if df == 11 or df >= 24:
                setf(fr, 8, 24, a)
            steps.append(frame_step(fr))
        if rng.random() < 0.5:
            steps.append(frame_step(gen.rnd_frame(rng, rng.choice((1, 2, 3, 22)), rng.randrange(0, 15))))      # not a frame at all
        steps.append(frame_step(f_ident(rng, b, "OTH%d" % i)))                                             # another aircraft's squitter
        steps.append({"op": "tick", "secs": early})
        steps.append({"op": "prune", "T": T})                                                              # a: silent for T; b: for `early` < T
        steps.append(frame_step(f_ident(rng, a, "SIL%d" % i)))                                             # heard again: newly added
        out.append({"id": f"sr{i}", "rx": [round(rx[0] * 1e6), round(rx[1] * 1e6)], "range_m": RANGES_M[1], "steps": steps})
    return out


def subsecond_histories(rng, count):
    """frames that follow one another within less than a second: each one refreshes the last-heard time, to the moment it
    is processed - an aircraft heard again a fraction of a second after its previous frame and then silent for a little
    less than T is not due, one silent for T and a fraction is.  Ticks carry milliseconds; the margins to the due time are
    half a second (the trace specification also allows for the real time the run itself took)"""
    out = []
    for i in range(count):
        a, b, c = rng.sample(range(1, 1 << 24), 3)
        rx = RECEIVERS[0]
        T = rng.choice((1, 1, 2, 5, 30))
        w = rng.choice((300, 500, 700, 900))
        steps = [frame_step(f_ident(rng, a, "SUB%d" % i, df=rng.choice((17, 18)))), frame_step(f_ident(rng, b, "OTB%d" % i)),
                 frame_step(f_ident(rng, c, "OTC%d" % i)),
                 {"op": "tick", "secs": 0, "ms": w}]
        for _ in range(rng.randrange(1, 3)):
            steps.append(frame_step(rng.choice((f_ident(rng, a, "SUB%d" % i), f_vel(rng, a, (0, 100), (1, 200), (0, 5)), f_other_me(rng, a, df=17)))))
        if rng.random() < 0.5:
            # ... and once more, again within the same second
            steps.append({"op": "tick", "secs": 0, "ms": 200})
            steps.append(frame_step(f_ident(rng, a, "SUC%d" % i)))
            steps.append(frame_step(f_ident(rng, c, "OTD%d" % i)))
            w += 200
        # a: last heard T - 0.5 s before the expiry (first heard T - 0.5 + w/1000 s before it: not what counts);
        # b: silent for T - 0.5 + w/1000 s - due exactly when that is T or more; c: as a, when it was heard the second time
        steps.append({"op": "tick", "secs": T - 1, "ms": 500})
        steps.append({"op": "prune", "T": T})
        steps.append(frame_step(f_ident(rng, b, "OTB%d" % i)))
        steps.append(frame_step(f_ident(rng, a, "SUB%d" % i)))
        out.append({"id": f"sub{i}", "rx": [round(rx[0] * 1e6), round(rx[1] * 1e6)], "range_m": RANGES_M[1], "steps": steps})
    return out


# ---------------------------------------------------------------------------------------------
# spec -> impl: histories of the bounded model, concretised

def write_cfg(name, naddr, steps, replay):
    body = f"""SPECIFICATION Spec
CONSTANTS
  NAddr = {naddr}
  MaxSteps = {steps}
  MaxT = 2
  PrintReplay = {'TRUE' if replay else 'FALSE'}
INVARIANT Inv
INVARIANT Replay
VIEW View
CHECK_DEADLOCK FALSE
"""
    path = os.path.join(core.SPEC, name + ".cfg")
    if not os.path.exists(path) or open(path).read() != body:
        open(path, "w").write(body)


def step_d(tier, rep):
    """invariants of C12-C15 on the bounded model: exhaustive to depth 5 (quick) / 6 (thorough), plus in the thorough tier
    random walks of depth 40 over three addresses"""
    depth = 5 if tier == "quick" else 6
    cfg = f"MC_Tracker_d{depth}"
    write_cfg(cfg, 2, depth, False)
    res = core.run_mc("MC_Tracker", cfg=cfg, workers=8, timeout=3400, xmx="12g")
    rep.add_model(res, cfg)
    if not res["ok"]:
        raise core.ToolError(f"MC_Tracker violated {res['violated']}: the tracking rules themselves are inconsistent")
    if tier == "thorough":
        cfg = "MC_Tracker_walk"
        write_cfg(cfg, 3, 40, False)
        res = core.run_mc("MC_Tracker", cfg=cfg, workers=8, timeout=3400, extra_args=["-simulate", "num=20000", "-depth", "41"])
        rep.add_model(res, cfg + " (random walks)")
        if not res["ok"]:
            raise core.ToolError(f"MC_Tracker random walks violated {res['violated']}")
        # unbounded counterpart (TLAPS): the structural rules for any number of aircraft and any geometry
        import subprocess
        r = subprocess.run(["timeout", "1200", "tlapm", "--threads", "4", "--cleanfp", "Tracker_proofs.tla"], cwd=core.SPEC,
                           stdout=subprocess.PIPE, stderr=subprocess.STDOUT, text=True)
        subprocess.run(["rm", "-rf", os.path.join(core.SPEC, ".tlacache")])
        m = re.search(r"All (\d+) obligations proved", r.stdout)
        if not m:
            raise core.ToolError("tlapm did not prove Tracker_proofs.tla: " + r.stdout[-600:])
        rep.extra["tlaps"] = {"module": "Tracker_proofs", "theorems": "OtherFormats, GrowsByTheAddress, Isolated, PruneExactly, AddedIffNewAddress (any table, any frame, any geometry)",
                              "obligations": int(m.group(1)), "proved": int(m.group(1))}


def model_histories(tier, rep):
    """one history per distinct state of MC_Tracker at the depth bound (printed by its Replay invariant)"""
    depth = 3 if tier == "quick" else 4
    cfg = f"MC_Tracker_replay{depth}"
    body = f"""SPECIFICATION Spec
CONSTANTS
  NAddr = 2
  MaxSteps = {depth}
  MaxT = 2
  PrintReplay = TRUE
INVARIANT Inv
INVARIANT Replay
VIEW View
CHECK_DEADLOCK FALSE
"""
    path = os.path.join(core.SPEC, cfg + ".cfg")
    if not os.path.exists(path) or open(path).read() != body:
        open(path, "w").write(body)
    res = core.run_mc("MC_Tracker", cfg=cfg, workers=1 if tier == "quick" else 4, timeout=3000)
    if not res["ok"]:
        raise core.ToolError(f"MC_Tracker violated {res['violated']}: the tracking rules themselves are inconsistent")
    hs = []
    for t in res["tuples"]:
        m = re.match(r'<<"REPLAY", <<(.*)>>>>$', t)
        if m:
            hs.append([int(x) for x in m.group(1).split(",") if x.strip()])
    rep.add_model(res, cfg)
    return hs


NF_PER_ADDR = 14


def concretise(rng, hid, codes, naddr=2):
    """map an abstract history (action codes of MC_Tracker) to real frames"""
    rx = (52.0, 4.0)
    rng_m = 500_000
    A = move(rx[0], rx[1], 40.0, 20.0)
    places = {1: A, 2: move(A[0], A[1], 100.0, 2.0), 3: move(A[0], A[1], 200.0, 180.0), 4: move(rx[0], rx[1], 300.0, 700.0)}
    alts = {1: 1000, 2: None, 3: 2000, 4: 3000}
    addrs = [0x400000 + 0x111 * (i + 1) for i in range(naddr)]
    nf = 1 + NF_PER_ADDR * naddr
    steps = []
    for c in codes:
        if c == 1:
            steps.append(frame_step(f_other_df(rng, addrs[0])))
        elif c <= nf:
            a = addrs[(c - 2) // NF_PER_ADDR]
            k = (c - 2) % NF_PER_ADDR + 1
            df = rng.choice((17, 18))
            if k == 1:
                steps.append(frame_step(f_ident(rng, a, "A", df)))
            elif k == 2:
                steps.append(frame_step(f_ident(rng, a, "B", df)))
            elif k == 3:
                steps.append(frame_step(f_vel(rng, a, (0, 101), (0, 1), (0, 2), df=df)))
            elif k == 4:
                steps.append(frame_step(f_vel(rng, a, (1, 201), (0, 1), (1, 2), df=df)))
            elif k == 5:
                steps.append(frame_step(f_vel(rng, a, (0, 0), (0, 5), (0, 2), df=df)))
            elif k == 6:
                steps.append(frame_step(f_other_me(rng, a, df)))
            else:
                i = k - 6                         # 1..8
                par = (i - 1) % 2
                place = (i - 1) // 2 + 1
                lat, lon = places[place]
                steps.append(frame_step(f_pos(rng, a, lat, lon, par, alts[place], df=df)))
        elif c == nf + 1:
            steps.append({"op": "tick", "secs": 1})
        else:
            steps.append({"op": "prune", "T": c - nf - 2})
    return {"id": hid, "rx": [round(rx[0] * 1e6), round(rx[1] * 1e6)], "range_m": rng_m, "steps": steps}


# ---------------------------------------------------------------------------------------------

def run_histories(hx, hists):
    """a history during which the code under test does not return (20 s) is data: it is recorded as reset / action with
    outcome `panic` (flagged `timeout`) / end, and the run resumes with the next history"""
    payload = "\n".join(json.dumps(h, separators=(",", ":")) for h in hists) + "\n"
    lines, skip = [], 0
    while True:
        r = subprocess.run([hx, "track", "--skip", str(skip)], input=payload, stdout=subprocess.PIPE, stderr=subprocess.PIPE, text=True, timeout=3000)
        got = r.stdout.splitlines()
        if r.returncode == 0:
            lines += got
            break
        m = re.search(r"HX-TIMEOUT index=(\d+)", r.stderr) if r.returncode == 3 else None
        if not m:
            raise core.ToolError("hx track failed: " + r.stderr[-2000:])
        idx = int(m.group(1))
        # keep the complete histories before the hung one, replace the hung one
        keep, cur_lines = [], []
        for ln in got:
            cur_lines.append(ln)
            if '"ev":"end"' in ln:
                keep += cur_lines
                cur_lines = []
        h = hists[idx]
        lines += keep
        lines.append(json.dumps({"ev": "reset", "hist": h["id"], "rx": {"lat": h["rx"][0], "lon": h["rx"][1]}, "range_m": h["range_m"]}))
        lines.append(json.dumps({"ev": "action", "bytes": [], "outcome": "panic", "timeout": 1, "added": 0, "planes": []}))
        lines.append(json.dumps({"ev": "end", "hist": h["id"], "wall_ms": 20000}))
        skip = idx + 1
        if skip >= len(hists):
            break
    groups, cur = [], None
    for line in lines:
        if not line.strip():
            continue
        e = json.loads(line)
        if e["ev"] == "reset":
            cur = [e]
        elif e["ev"] == "end":
            cur.append(e)
            groups.append(cur)
            cur = None
        else:
            cur.append(e)
    if len(groups) != len(hists):
        raise core.ToolError("track recorder lost histories")
    return groups


def record(hx, hists):
    """run histories; a history that involves the clock and took 0.9 s or longer is repeated (real elapsed time adds
    to every age, and integer ticks only stay exact while it is below one second); never a verdict"""
    groups = run_histories(hx, hists)
    final = []
    for h, g in zip(hists, groups):
        timed = any(s["op"] in ("tick", "prune") for s in h["steps"])
        tries = 0
        while timed and g[-1]["wall_ms"] >= 900:
            tries += 1
            if tries > 3:
                raise core.ToolError("history keeps taking 0.9 s or longer; machine too loaded to judge expiry")
            g = run_histories(hx, [h])[0]
        final.append(g)
    return final


def run(prop, tier, seed, rep, std=True):
    rng = random.Random(seed * 1000003 + 12)
    hx = core.build_hx("std")
    hists = []
    step_d(tier, rep)
    # spec -> impl
    mh = model_histories(tier, rep)
    take = rng.sample(mh, min(len(mh), 6000 if tier == "quick" else 40000))
    for i, codes in enumerate(take):
        hists.append(concretise(rng, f"m{i}", codes))
    n_model = len(hists)
    # impl -> spec
    for i in range(40 if tier == "quick" else 600):
        hists.append(random_history(rng, f"r{i}", rng.choice((60, 200, 400)), rng.choice((1, 2, 5, 12))))
    for i in range(40 if tier == "quick" else 1000):
        hists.append(threshold_history(rng, f"t{i}"))
    for i in range(4 if tier == "quick" else 60):
        hists.append(neighbour_history(rng, f"n{i}"))
    hists += tie_histories(rng, 60 if tier == "quick" else 600)
    hists += silent_refresh_histories(rng, 16 if tier == "quick" else 300)
    hists += subsecond_histories(rng, 16 if tier == "quick" else 300)
    groups = record(hx, hists)
    events = [e for g in groups for e in g]
    verdicts, st, tr = core.validate_events("Trace_Tracker", events, prop, shards=core.MAX_JVMS,
                                              boundary=lambda e: e["ev"] == "reset")
    rep.add_trace_stats(st, tr, len(hists))
    # attribute verdicts: find the history an event belongs to
    starts = []
    pos = 0
    for g in groups:
        starts.append(pos)
        pos += len(g)
    import bisect
    summary = {}
    for v in verdicts:
        hi = bisect.bisect_right(starts, v["index"]) - 1
        ev = events[v["index"]]
        for owner, field in v["pairs"]:
            k = f"{owner}|{v['cls']}|{field}"
            summary.setdefault(k, [0, hists[hi]["id"], v["index"] - starts[hi]])[0] += 1
            rep.mismatch(owner, v["cls"], field, {"kind": "track", "history": hists[hi], "step_event_index": v["index"] - starts[hi],
                                                  "event": ev})
    # the tracker of the allocation-only build (no clock, no expiry): the same contract, judged the same way
    n_alloc = 0
    if prop in ("C12", "C13", "C14"):
        hxa = core.build_hx("alloc")
        ah = [random_history(rng, f"a{i}", rng.choice((60, 200)), rng.choice((1, 2, 5)), with_time=False, with_serde=False)
              for i in range(12 if tier == "quick" else 200)]
        ah.append(neighbour_history(rng, "an0"))
        ah += tie_histories(rng, 12 if tier == "quick" else 120)
        agroups = run_histories(hxa, ah)
        aevents = [e for g in agroups for e in g]
        n_alloc = len(aevents)
        averd, st2, tr2 = core.validate_events("Trace_Tracker", aevents, prop + "-alloc", shards=core.MAX_JVMS, boundary=lambda e: e["ev"] == "reset")
        rep.add_trace_stats(st2, tr2, len(ah))
        astarts, pos = [], 0
        for g in agroups:
            astarts.append(pos)
            pos += len(g)
        for v in averd:
            hi = bisect.bisect_right(astarts, v["index"]) - 1
            for owner, field in v["pairs"]:
                summary.setdefault(f"{owner}|alloc|{v['cls']}|{field}", [0, ah[hi]["id"], v["index"] - astarts[hi]])[0] += 1
                rep.mismatch(owner, v["cls"], field, {"kind": "track", "build": "alloc", "history": ah[hi], "step_event_index": v["index"] - astarts[hi],
                                                      "event": aevents[v["index"]]})
    rep.extra["alloc_build_tracker_events"] = n_alloc
    json.dump(summary, open(os.path.join(core.BUILD, f"last_{prop}_verdicts.json"), "w"), indent=1, sort_keys=True)
    if tier == "thorough":
        selftest(prop, rep, groups)
    nsteps = sum(len(h["steps"]) for h in hists)
    kinds = {}
    for e in events:
        kinds[e["ev"]] = kinds.get(e["ev"], 0) + 1
    published = sum(1 for e in events if e["ev"] == "action" and any(p["pos"]["some"] == 1 for p in e["planes"]))
    rep.extra.update({"histories": len(hists), "histories_from_bounded_model": n_model, "steps": nsteps, "events_by_kind": kinds,
                      "action_events_with_a_published_position": published,
                      "max_tracked": max((len(e["planes"]) for e in events if "planes" in e), default=0)})
    rep.samples = [{"history": hists[0]["id"], "steps": hists[0]["steps"][:4]},
                   {"history": hists[n_model]["id"], "first_events": [e for e in groups[n_model][:3]]}]
    rep.assumptions += ["expiry is driven by the guarded hook Airplanes::verif_backdate (integer seconds); histories that took 0.9 s or longer are repeated",
                        "distances judged with 5 m + 1e-6 d tolerance; threshold decisions have a 25 m guard band; positions 3 micro-degrees"]


def selftest(prop, rep, groups):
    """corrupt one recorded value in a recorded history and require TLC to flag that step for this property"""
    def find(pred):
        for g in groups:
            for i, e in enumerate(g):
                if pred(e):
                    return g, i
        raise core.ToolError("anti-vacuity: no suitable recorded step")
    if prop == "C12":
        g, i = find(lambda e: e["ev"] == "action" and e["outcome"] == "ok" and e["planes"])
        mut = lambda e: (e["planes"][0].update(n=e["planes"][0]["n"] + 1), e)[1]
    elif prop == "C13":
        g, i = find(lambda e: e["ev"] == "action" and any(p["pos"]["some"] == 1 and p["n"] >= 2 for p in e["planes"])
                    and bytes(e["bytes"][1:4]) in [p["addr"].to_bytes(3, "big") for p in e["planes"] if p["pos"]["some"] == 1]
                    and (e["bytes"][4] >> 3) in list(range(9, 19)) + [20, 21, 22])
        def mut(e):
            for p in e["planes"]:
                if p["addr"].to_bytes(3, "big") == bytes(e["bytes"][1:4]):
                    p["pos"]["lat"] += 400
            return e
    elif prop == "C14":
        g, i = find(lambda e: e["ev"] == "action" and any(p["hascs"] == 1 for p in e["planes"]) and (e["bytes"][0] >> 3) in (17, 18)
                    and 1 <= (e["bytes"][4] >> 3) <= 4)
        def mut(e):
            for p in e["planes"]:
                if p["addr"].to_bytes(3, "big") == bytes(e["bytes"][1:4]):
                    p["cs"] = [90] + p["cs"]
            return e
    else:
        g, i = find(lambda e: e["ev"] == "prune" and len(e["planes"]) >= 1)
        mut = lambda e: (e["planes"].pop(), e)[1]
    core.anti_vacuity(rep, "Trace_Tracker", g, [(i, mut, prop)], boundary=lambda e: e["ev"] == "reset", name=f"{prop}-selftest")
