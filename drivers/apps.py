"""Drivers for the two client programs: a scripted TCP feed server, a runner for `1090` (stdout) and a pty
driver for `radar` (window size, keys, SGR mouse, frame markers from the guarded hook, termios, exit status).
No judgement is made here; runs are recorded as events for TLC."""
import errno
import fcntl
import json
import os
import pty
import re
import select
import signal
import socket
import struct
import subprocess
import tempfile
import termios
import threading
import time

SHORT_GAP = 0.0          # "same send or immediately after"
LONG_GAP = 0.20          # four times the clients' 50 ms read timeout


class FeedServer(threading.Thread):
    """script: list of connections; a connection is {"segments": [[bytes, "short"|"long"], ...], "then": "hold"|"close"}
    `hold` keeps the connection open until stop(); `close` closes it after the last segment (plus a long gap)."""

    def __init__(self, script):
        super().__init__(daemon=True)
        self.script = script
        self.sock = socket.socket(socket.AF_INET, socket.SOCK_STREAM)
        self.sock.setsockopt(socket.SOL_SOCKET, socket.SO_REUSEADDR, 1)
        self.sock.bind(("127.0.0.1", 0))
        self.sock.listen(4)
        self.port = self.sock.getsockname()[1]
        self.stop_ev = threading.Event()
        self.done_sending = threading.Event()
        self.queue = []                      # interactive connections: bytes pushed while the client runs
        self.qlock = threading.Lock()
        self.log = []
        self.accepted = 0

    def run(self):
        try:
            for ci, conn_script in enumerate(self.script):
                self.sock.settimeout(10)
                try:
                    c, _ = self.sock.accept()
                except socket.timeout:
                    self.log.append(("accept-timeout", ci))
                    break
                self.accepted += 1
                c.setsockopt(socket.IPPROTO_TCP, socket.TCP_NODELAY, 1)
                time.sleep(conn_script.get("delay", 0.15))          # let the client reach its read loop
                for data, gap in conn_script["segments"]:
                    try:
                        c.sendall(bytes(data))
                    except OSError as e:
                        self.log.append(("send-error", str(e)))
                        break
                    self.log.append(("sent", len(data), gap))
                    # "near": around the clients' 50 ms read timeout - which way the race goes must not matter
                    time.sleep(LONG_GAP if gap == "long" else (0.03 + 0.04 * ((len(data) * 7919) % 100) / 100.0) if gap == "near" else SHORT_GAP)
                time.sleep(LONG_GAP)
                last = ci == len(self.script) - 1
                if last:
                    self.done_sending.set()
                if conn_script.get("interactive"):
                    while not self.stop_ev.is_set():
                        with self.qlock:
                            data = self.queue.pop(0) if self.queue else None
                        if data is None:
                            time.sleep(0.01)
                            continue
                        try:
                            c.sendall(data)
                        except OSError:
                            break
                    c.close()
                    break
                if conn_script.get("then", "hold") in ("close", "reset"):
                    time.sleep(conn_script.get("linger", 0.3))
                    if conn_script["then"] == "reset":
                        # the connection is aborted (RST), not closed: the client's next read fails instead of reporting the end
                        c.setsockopt(socket.SOL_SOCKET, socket.SO_LINGER, struct.pack("ii", 1, 0))
                    c.close()
                    self.log.append(("closed", ci))
                    if conn_script.get("pause"):
                        time.sleep(conn_script["pause"])
                else:
                    self.stop_ev.wait(30)
                    c.close()
            self.done_sending.set()
        finally:
            self.done_sending.set()
            self.sock.close()

    def push(self, data):
        with self.qlock:
            self.queue.append(bytes(data))

    def stop(self):
        self.stop_ev.set()


# client processes that ended by a SIGTERM nobody in the check sent: the run says nothing about the program and ends as a
# tool error (exit 2), not as a verdict (Report.finish)
INTERFERENCE = []


def run_1090(bindir, script, settle=0.5):
    """returns dict(printed=[...], alive=0/1, exit=code or -1, panic=0/1)"""
    srv = FeedServer(script)
    srv.start()
    # stdout goes to a file: a pipe nobody reads while the client runs would fill up (64 KB) and stall the client
    fo = tempfile.TemporaryFile()
    fe = tempfile.TemporaryFile()
    p = subprocess.Popen([os.path.join(bindir, "1090"), "--host", "127.0.0.1", "--port", str(srv.port)], stdout=fo, stderr=fe)
    srv.done_sending.wait(30)
    time.sleep(settle)
    alive = p.poll() is None
    if alive:
        p.kill()
    p.wait(timeout=10)
    if p.returncode == -signal.SIGTERM:
        INTERFERENCE.append(f"1090 pid {p.pid}")
    fo.seek(0); fe.seek(0)
    out, err = fo.read(), fe.read()
    fo.close(); fe.close()
    srv.stop()
    lines = out.decode("utf-8", "replace").splitlines()
    printed = [l for l in lines if l and not l.startswith(" ")]
    # the text printed after each line's hex: the frame's rendering (1090 prints `{frame}` followed by an empty line)
    blocks, cur = [], None
    for l in lines:
        if l and not l.startswith(" "):
            cur = {"hex": l.lower(), "text": []}
            blocks.append(cur)
        elif cur is not None and l:
            cur["text"].append(l)
    code = p.returncode
    return {"printed": printed, "blocks": blocks, "alive": 1 if alive else 0, "exit": code if not alive else -1,
            "panic": 1 if b"panicked" in err else 0, "stderr": err.decode("utf-8", "replace")[-400:]}


# ---------------------------------------------------------------------------------------------
# pty driver for radar

MARK = re.compile(rb"\x1b\]777;frame=(\d+)\x07")


def set_winsize(fd, rows, cols):
    fcntl.ioctl(fd, termios.TIOCSWINSZ, struct.pack("HHHH", rows, cols, 0, 0))


KEYS = {"F1": b"\x1bOP", "F2": b"\x1bOQ", "F3": b"\x1bOR", "F4": b"\x1bOS", "F5": b"\x1b[15~", "Tab": b"\t", "Enter": b"\r",
        "Up": b"\x1b[A", "Down": b"\x1b[B", "Right": b"\x1b[C", "Left": b"\x1b[D", "q": b"q", "CtrlC": b"\x03", "+": b"+", "-": b"-",
        "l": b"l", "i": b"i", "h": b"h", "t": b"t", "n": b"n", "x": b"x", "Esc": b"\x1b", "Space": b" ", "PageDown": b"\x1b[6~",
        # keys without a meaning in the program: whatever they are, they change nothing and end nothing
        "F6": b"\x1b[17~", "F7": b"\x1b[18~", "F8": b"\x1b[19~", "F9": b"\x1b[20~", "F10": b"\x1b[21~", "F11": b"\x1b[23~", "F12": b"\x1b[24~",
        "Home": b"\x1b[H", "End": b"\x1b[F", "Insert": b"\x1b[2~", "Delete": b"\x1b[3~", "PageUp": b"\x1b[5~", "BackTab": b"\x1b[Z",
        "Backspace": b"\x7f", "Q": b"Q", "L": b"L", "ShiftF1": b"\x1b[1;2P", "CtrlF3": b"\x1b[1;5R", "AltX": b"\x1bx", "0": b"0"}


def mouse(kind, col, row):
    """SGR mouse report (1-based coordinates on the wire): kind in down, up, drag, scrollup, scrolldown, rdown"""
    code = {"down": 0, "up": 0, "drag": 32, "scrollup": 64, "scrolldown": 65, "rdown": 2, "move": 35}[kind]
    final = "m" if kind == "up" else "M"
    return f"\x1b[<{code};{col + 1};{row + 1}{final}".encode()


class Radar:
    """one radar process in a pty"""

    def __init__(self, bindir, port, args=(), size=(24, 80), trace=None, logdir=None):
        self.trace = trace or tempfile.mktemp(prefix="radar-trace-", suffix=".ndjson")
        self.logdir = logdir or tempfile.mkdtemp(prefix="radar-logs-")
        self.out = bytearray()
        self.frames = 0
        env = dict(os.environ)
        env["RADAR_VERIF_TRACE"] = self.trace
        env["TERM"] = "xterm-256color"
        env.pop("RUST_LOG", None)
        env["RUST_BACKTRACE"] = "0"
        argv = [os.path.join(bindir, "radar"), "--host", "127.0.0.1", "--port", str(port), "--log-folder", self.logdir] + list(args)
        # the pty is created and sized, and its terminal state recorded, *before* the program starts (reading it after
        # the fork would race with the program switching to raw mode)
        master, slave = os.openpty()
        set_winsize(master, size[0], size[1])
        self.termios_before = termios.tcgetattr(slave)
        pid = os.fork()
        if pid == 0:
            try:
                os.close(master)
                os.setsid()
                fcntl.ioctl(slave, termios.TIOCSCTTY, 0)
                os.dup2(slave, 0)
                os.dup2(slave, 1)
                os.dup2(slave, 2)
                if slave > 2:
                    os.close(slave)
                os.execve(argv[0], argv, env)
            finally:
                os._exit(127)
        os.close(slave)
        self.pid, self.fd = pid, master
        self.status = None

    def pump(self, timeout=0.05):
        """read what the program wrote; returns False once the pty is closed"""
        try:
            r, _, _ = select.select([self.fd], [], [], timeout)
        except (OSError, ValueError):
            return False
        if not r:
            return True
        try:
            data = os.read(self.fd, 65536)
        except OSError as e:
            if e.errno == errno.EIO:
                return False
            raise
        if not data:
            return False
        self.out += data
        return True

    def frame_count(self):
        m = None
        for m in MARK.finditer(self.out):
            pass
        return int(m.group(1)) if m else 0

    def wait_frames(self, n, timeout=5.0):
        """wait until the frame counter is at least n"""
        t0 = time.time()
        while time.time() - t0 < timeout:
            if self.frame_count() >= n:
                return True
            if not self.pump(0.05):
                return False
            if self.poll() is not None:
                self.pump(0.05)
                return self.frame_count() >= n
        return False

    def send(self, data):
        try:
            os.write(self.fd, data)
            return True
        except OSError:
            return False

    def resize(self, rows, cols):
        try:
            set_winsize(self.fd, rows, cols)
            os.kill(self.pid, signal.SIGWINCH)
        except OSError:
            pass

    def poll(self):
        if self.status is not None:
            return self.status
        try:
            pid, st = os.waitpid(self.pid, os.WNOHANG)
        except ChildProcessError:
            self.status = -999
            return self.status
        if pid == 0:
            return None
        self.status = os.waitstatus_to_exitcode(st)
        if self.status == -signal.SIGTERM:
            # no driver sends SIGTERM and the clients never raise it: somebody else on this machine did (`pkill radar`)
            INTERFERENCE.append(f"radar pid {self.pid}")
        return self.status

    def wait_exit(self, timeout=5.0):
        t0 = time.time()
        while time.time() - t0 < timeout:
            self.pump(0.05)
            if self.poll() is not None:
                for _ in range(5):
                    if not self.pump(0.02):
                        break
                return self.status
        return None

    def termios_after(self):
        try:
            return termios.tcgetattr(self.fd)
        except termios.error:
            return None

    def kill(self):
        if self.poll() is None:
            try:
                os.kill(self.pid, signal.SIGKILL)
            except OSError:
                pass
            t0 = time.time()
            while self.poll() is None and time.time() - t0 < 3:
                time.sleep(0.02)

    def close(self):
        self.kill()
        try:
            os.close(self.fd)
        except OSError:
            pass

    def events(self):
        ev = []
        if os.path.exists(self.trace):
            for line in open(self.trace, errors="replace"):
                line = line.strip()
                if line:
                    try:
                        ev.append(json.loads(line))
                    except ValueError:
                        ev.append({"ev": "unparsable", "raw": line[:200]})
        return ev

    def cleanup(self):
        self.close()
        try:
            os.remove(self.trace)
        except OSError:
            pass
        subprocess.run(["rm", "-rf", self.logdir])


def termios_summary(t):
    """the parts of the terminal state the property names: cooked mode (canonical input, echo, signals)"""
    if t is None:
        return {"icanon": -1, "echo": -1, "isig": -1, "opost": -1}
    iflag, oflag, cflag, lflag = t[0], t[1], t[2], t[3]
    return {"icanon": 1 if lflag & termios.ICANON else 0, "echo": 1 if lflag & termios.ECHO else 0,
            "isig": 1 if lflag & termios.ISIG else 0, "opost": 1 if oflag & termios.OPOST else 0}


def modes_at_end(out):
    """final state of the DEC private modes the program touched (None = never touched)"""
    state = {}
    for m in re.finditer(rb"\x1b\[\?([0-9;]+)([hl])", bytes(out)):
        for num in m.group(1).split(b";"):
            state[int(num)] = 1 if m.group(2) == b"h" else 0
    return state


def session_end_event(rd, tag, quit_sent, status, alive):
    """how a radar process ended, as the pty saw it (for Trace_UI / Trace_Session)"""
    out = bytes(rd.out)
    modes = modes_at_end(rd.out)
    m = re.search(rb"panicked at ([^\r\n]*)", out)
    return {"ev": "session_end", "tag": tag, "quit_sent": quit_sent, "alive": alive, "exit": status if status is not None else -1,
            "panic": 1 if b"panicked" in out else 0, "termios_before": termios_summary(rd.termios_before),
            "termios_after": termios_summary(rd.termios_after()),
            "modes": {"mouse": max([modes.get(x, 0) for x in (1000, 1002, 1003, 1006, 1015)]), "cursor": modes.get(25, 1),
                      "altscreen": modes.get(1049, 0)},
            "panic_text": m.group(1).decode("latin-1")[:120] if m else ""}


def hook_events(rd):
    return [e for e in rd.events() if e.get("ev") != "unparsable"]
