"""registry of checks"""
import json
import os
import re
import subprocess

import core
import decode_checks
import pair_checks
import track_checks
import reader_checks
import config_checks
import render_checks
import feed_checks
import ui_checks
import screen_checks


def decode_check(prop, tier, seed, rep):
    decode_checks.run(prop, tier, seed, rep)
    if prop == "C01":
        totality_of_operations(tier, seed, rep)


def totality_of_operations(tier, seed, rep):
    """C01, second half: pairing two position reports and feeding frames to the tracker never panic - boundary CPR
    values in both orders, receivers at the poles / antimeridian, range limits 0 and huge.  Judged by Trace_Pair and
    Trace_Tracker (a panic or a non-finite result is owned by C01)."""
    import random
    rng = random.Random(seed * 1000003 + 101)
    hx = core.build_hx("std")
    ins = [x for x in pair_checks.inputs(rng, "quick") if x["tag"] in ("bnd", "tie", "raw", "same", "pole", "anti")]
    rng.shuffle(ins)
    ins = ins[:6000 if tier == "quick" else 60000]
    r = subprocess.run([hx, "pair"], input="\n".join(json.dumps(x) for x in ins) + "\n", stdout=subprocess.PIPE, stderr=subprocess.PIPE, text=True, timeout=1200)
    if r.returncode != 0:
        raise core.ToolError("hx pair failed: " + r.stderr[-1000:])
    pev = [json.loads(l) for l in r.stdout.splitlines() if l.strip()]
    v1, st, tr = core.validate_events("Trace_Pair", pev, "C01-pair")
    rep.add_trace_stats(st, tr, len(pev))
    for v in v1:
        for owner, field in v["pairs"]:
            rep.mismatch(owner, v["cls"], field, {"kind": "pair", "event": pev[v["index"]]})
    hists = []
    saved = (track_checks.RECEIVERS[:], track_checks.RANGES_M[:])
    try:
        track_checks.RECEIVERS[:] = [(90.0, 0.0), (-90.0, 0.0), (0.0, 180.0), (0.0, -180.0), (89.999999, 179.999999), (0.0, 0.0)]
        track_checks.RANGES_M[:] = [0, 1, 500_000, 19_000_000]
        for i in range(24 if tier == "quick" else 400):
            hists.append(track_checks.random_history(rng, f"x{i}", rng.choice((80, 200)), rng.choice((1, 3, 8)), with_time=False, with_serde=False))
    finally:
        track_checks.RECEIVERS[:], track_checks.RANGES_M[:] = saved
    groups = track_checks.record(hx, hists)
    tev = [e for g in groups for e in g]
    v2, st, tr = core.validate_events("Trace_Tracker", tev, "C01-track", shards=core.MAX_JVMS, boundary=lambda e: e["ev"] == "reset")
    rep.add_trace_stats(st, tr, len(hists))
    for v in v2:
        for owner, field in v["pairs"]:
            rep.mismatch(owner, v["cls"], field, {"kind": "track-event", "event_index": v["index"]})
    rep.extra.update({"pair_operations": len(pev), "tracker_steps": sum(1 for e in tev if e["ev"] == "action")})


CHECKS = {p: decode_check for p in ("C01", "C02", "C03", "C04", "C06", "C07", "C08", "C09", "C10")}


CHECKS["C05"] = pair_checks.run
for _p in ("C12", "C13", "C14", "C15"):
    CHECKS[_p] = track_checks.run


CHECKS["C19"] = reader_checks.run
CHECKS["C20"] = config_checks.run
CHECKS["C11"] = render_checks.run
CHECKS["C16"] = feed_checks.run
CHECKS["C17"] = ui_checks.run
CHECKS["C18"] = screen_checks.run


def setup():
    core.build_hx("std")
    core.build_hx("alloc")
    r = subprocess.run(["python3", os.path.join(core.VERIF, "drivers", "selfcheck.py")], stdout=subprocess.PIPE, text=True)
    print(r.stdout.strip())
    if r.returncode != 0:
        raise core.ToolError("specification self-check failed")
    # parse every module and run the ASSUME self-tests once
    r = core.run_mc("SelfTest", workers=2, timeout=600, cache=False)
    if not r["ok"]:
        raise core.ToolError("spec self-tests failed: " + r["output_tail"])
    # warm the Step-D cache (models that depend only on spec/)
    for m in ("MC_Crc", "MC_ModeAC", "MC_CPR"):
        r = core.run_mc(m, workers=8, timeout=3000, xmx="8g")
        if not r["ok"]:
            raise core.ToolError(f"{m} fails: {r['violated']}")
    track_checks.write_cfg("MC_Tracker_d5", 2, 5, False)
    r = core.run_mc("MC_Tracker", cfg="MC_Tracker_d5", workers=8, timeout=3400, xmx="12g")
    if not r["ok"]:
        raise core.ToolError(f"MC_Tracker fails: {r['violated']}")
    core.build_apps()
    print("setup ok")
    return 0


def replay(path):
    body = json.load(open(path))
    prop = body["property"]
    w = body["witness"]
    rep = core.Report(prop, "quick", 0)
    if w["kind"] == "decode":
        hx = core.build_hx("std")
        events = core.run_hx(hx, ["decode", "--ops"], [{"bytes": w["bytes"]}])
        verdicts, st, tr = core.validate_events("Trace_Decode", events, "replay", shards=1)
        rep.add_trace_stats(st, tr, 1)
        for v in verdicts:
            for owner, field in v["pairs"]:
                rep.mismatch(owner, v["cls"], field, w)
        rep.samples = events
    elif w["kind"] == "track":
        hx = core.build_hx("std")
        groups = track_checks.record(hx, [w["history"]])
        events = groups[0]
        verdicts, st, tr = core.validate_events("Trace_Tracker", events, "replay", shards=1)
        rep.add_trace_stats(st, tr, 1)
        for v in verdicts:
            for owner, field in v["pairs"]:
                rep.mismatch(owner, v["cls"], field, w)
            if os.environ.get("VERIF_VERBOSE"):
                print("VERDICT at event", v["index"], v["cls"], v["pairs"])
                ev = events[v["index"]]
                by = bytes(ev.get("bytes", []))
                addr = int.from_bytes(by[1:4], "big") if len(by) >= 4 else -1
                def brief(e):
                    for p in e.get("planes", []):
                        if p["addr"] == addr:
                            return {k: p[k] for k in ("n", "even", "odd", "pos", "dist", "track", "det", "hasvel")}
                    return None
                j = v["index"] - 1
                while j > 0 and "planes" not in events[j]:
                    j -= 1
                print("  reset:", json.dumps(events[0]))
                print("  frame:", by.hex(), "added", ev.get("added"), ev.get("outcome"), ev.get("T", ""))
                print("  before:", json.dumps(brief(events[j])))
                print("  after: ", json.dumps(brief(ev)))
        rep.samples = events[:3]
    elif w["kind"] == "pair":
        hx = core.build_hx("std")
        e = w["event"]
        r = subprocess.run([hx, "pair"], input=json.dumps({"tag": e.get("tag", ""), "first": [e["first"]["odd"], e["first"]["lat"], e["first"]["lon"]],
                                                            "second": [e["second"]["odd"], e["second"]["lat"], e["second"]["lon"]]}) + "\n",
                           stdout=subprocess.PIPE, text=True)
        events = [json.loads(l) for l in r.stdout.splitlines() if l.strip()]
        verdicts, st, tr = core.validate_events("Trace_Pair", events, "replay", shards=1)
        for v in verdicts:
            for owner, field in v["pairs"]:
                rep.mismatch(owner, v["cls"], field, w)
        rep.samples = events
    elif w["kind"] == "render":
        hx = core.build_hx("std")
        events = core.run_hx(hx, ["decode", "--text", "--ops"], [{"bytes": w["bytes"]}])
        for e in events:
            e.pop("rawtext", None); e.pop("calc", None)
        verdicts, st, tr = core.validate_events("Trace_Render", events, "replay", shards=1)
        for v in verdicts:
            for owner, field in v["pairs"]:
                rep.mismatch(owner, v["cls"], field, w)
        rep.samples = events
    elif w["kind"] == "reader":
        hx = core.build_hx("std")
        inp = {"bytes": w["bytes"], "script": w["script"], "between": w.get("between", []), "tag": "replay",
               "prefix": w.get("prefix", 0), **({"prefix_bytes": w["prefix_bytes"]} if w.get("prefix_bytes") else {}), "chain": w.get("chain", 0), "base": w.get("base", [0, 0]), "fail_seek": w.get("fail_seek", 0)}
        events = reader_checks.hx_reader(hx, [inp])
        verdicts, st, tr = core.validate_events("Trace_Reader", events, "replay", shards=1)
        for v in verdicts:
            for owner, field in v["pairs"]:
                rep.mismatch(owner, v["cls"], field, w)
        rep.samples = [{k: events[0][k] for k in ("outcome", "calls")}]
    elif w["kind"] == "feed":
        bindir = core.build_apps()
        if w["client"] == "1090":
            ev = feed_checks.run_1090(bindir, w["segments"], w["sent"], "replay")
        elif w["mode"] == "retry":
            ev = feed_checks.run_radar(bindir, [{"segments": w["segments"], "then": "close", "linger": 0.2},
                                                {"segments": w["second_connection"], "then": "hold"}], w["sent"], "replay", "retry",
                                       extra_args=["--retry-tcp"])
        else:
            ev = feed_checks.run_radar(bindir, [{"segments": w["segments"], "then": "close" if w["mode"] == "close" else "hold"}],
                                       w["sent"], "replay", w["mode"])
        verdicts, st, tr = core.validate_events("Trace_Feed", [ev], "replay", shards=1)
        for v in verdicts:
            for owner, field in v["pairs"]:
                rep.mismatch(owner, v["cls"], field, w)
        rep.samples = [ev]
    elif w["kind"] == "ui" and "session" in w:
        bindir = core.build_apps()
        sess = w["session"]
        steps = [tuple(x.encode("latin-1") if (st_[0] in ("raw", "junk") and i == 1) else (tuple(x) if isinstance(x, list) and st_[0] == "resize" else x)
                       for i, x in enumerate(st_)) for st_ in sess["steps"]]
        events = ui_checks.session(bindir, steps, "replay", size=tuple(sess["size"]), touch=sess["touch"], filter_time=sess["filter_time"], options=sess.get("options", ()))
        verdicts, st, tr = core.validate_events("Trace_UI", events, "replay", shards=1, boundary=lambda e: e["ev"] == "session_start")
        for v in verdicts:
            for owner, field in v["pairs"]:
                rep.mismatch(owner, re.sub(r"(model|random)\d+", r"\1", v["cls"]), field, w)
        rep.samples = events[-1:]
    elif w["kind"] == "session" and "events" in w:
        # the recorded session (trimmed to what the lifecycle machine looks at) is judged again by TLC
        verdicts, st, tr = core.validate_events("Trace_Session", w["events"], "replay", shards=1)
        for v in verdicts:
            for owner, field in v["pairs"]:
                rep.mismatch(owner, re.sub(r"(model|random|life)\d+", r"\1", v["cls"]), field, w)
    elif w["kind"] == "ui" and w.get("event", {}).get("ev") == "session_end" and re.match(r"(flood|huge)-", w["event"].get("tag", "")):
        bindir = core.build_apps()
        tag = w["event"]["tag"]
        if tag.startswith("flood-"):
            events = ui_checks.flood_session(bindir, tag, (int(tag.split("-")[1]) - 1) // 3)
        else:
            rows, cols = (int(x) for x in tag.split("-")[1].split("x"))
            events = ui_checks.session(bindir, [("frame",), ("resize", rows, cols), ("key", "F3"), ("key", "F1"), ("frame",)], tag)
        verdicts, st, tr = core.validate_events("Trace_UI", events, "replay", shards=1, boundary=lambda e: e["ev"] == "session_start")
        for v in verdicts:
            for owner, field in v["pairs"]:
                rep.mismatch(owner, v["cls"], field, w)
        rep.samples = events[-1:]
    elif w["kind"] == "ui" and w.get("event", {}).get("ev") == "cli":
        bindir = core.build_apps()
        args = w["event"]["args"]
        ev = ui_checks.cli_pty_event(bindir, args, "replay") if "termios_after" in w["event"] else ui_checks.cli_event(bindir, args)
        events = [{"ev": "session_start", "tag": "cli", "rx": {"lat": 0, "lon": 0}, "scale9": 0, "retry": 0, "quit_sent": 0, "filter_time": 120}, ev]
        verdicts, st, tr = core.validate_events("Trace_UI", events, "replay", shards=1, boundary=lambda e: e["ev"] == "session_start")
        for v in verdicts:
            for owner, field in v["pairs"]:
                rep.mismatch(owner, v["cls"], field, w)
        rep.samples = [ev]
    elif w["kind"] in ("screen", "config", "ui", "model", "track-event", "track-serde", "icao", "session"):
        # these witnesses are recorded observations of whole sessions / two-build runs: the recorded event is judged again
        # by TLC; to re-execute, run the property's check (same seed reproduces the session)
        ev = w.get("event")
        if w["kind"] == "screen" and ev:
            verdicts, st, tr = core.validate_events("Trace_Screen", [{"ev": "session_start", "tag": "replay"}, ev], "replay", shards=1)
            for v in verdicts:
                for owner, field in v["pairs"]:
                    rep.mismatch(owner, v["cls"], field, w)
        else:
            print(f"replay of kind {w['kind']}: re-run ./check {prop} --tier quick with VERIF_SEED of the evidence file")
            return 2
    else:
        raise core.ToolError("unknown replay kind " + w["kind"])
    # a replay must not overwrite the property's evidence file
    seen = {(c, f) for (c, f, _) in rep.violations}
    for what, n in rep.known_hits.items():
        print(f"KNOWN-FINDING: property={prop} {what}")
    for (c, f) in sorted(seen):
        print(f"VIOLATION property={prop} replay={path}  ({c}|{f})")
    return 1 if seen else 0


def probe(hexes):
    """decode the given hex frames with the real code, judge them with TLC, print everything"""
    hx = core.build_hx("std")
    events = core.run_hx(hx, ["decode", "--ops", "--text"], [{"bytes": list(bytes.fromhex(h))} for h in hexes])
    verdicts, st, tr = core.validate_events("Trace_Decode", events, "probe", shards=1)
    for i, e in enumerate(events):
        print(hexes[i], json.dumps(e["out"], sort_keys=True), e["outcome"])
        for v in verdicts:
            if v["index"] == i:
                print("   VERDICT", v["cls"], v["pairs"])
    return 0
