#!/usr/bin/env python3
"""Specification self-checks that need real arithmetic: the NL thresholds of spec/CPR.tla are recomputed from
the closed form of NL (DO-260B A.1.7.2.d):  NL(lat) = floor(2 pi / arccos(1 - (1 - cos(pi/30)) / cos^2(lat)))."""
import math
import os
import re
import sys
from decimal import Decimal, getcontext

C = 463994880


def acos_dec(x):
    # arccos via high-precision Newton iteration on cos (Decimal), seeded from float
    getcontext().prec = 40
    y = Decimal(math.acos(float(x)))
    for _ in range(6):
        y = y - (cos_dec(y) - x) / (-sin_dec(y))
    return y


def sin_dec(x):
    getcontext().prec = 40
    s, t, n = Decimal(0), x, 1
    while abs(t) > Decimal(10) ** -38:
        s += t
        t = -t * x * x / ((n + 1) * (n + 2))
        n += 2
    return s


def cos_dec(x):
    getcontext().prec = 40
    s, t, n = Decimal(0), Decimal(1), 0
    while abs(t) > Decimal(10) ** -38:
        s += t
        t = -t * x * x / ((n + 1) * (n + 2))
        n += 2
    return s


def main():
    getcontext().prec = 40
    pi = Decimal("3.14159265358979323846264338327950288419716939937510")
    src = open(os.path.join(os.path.dirname(os.path.abspath(__file__)), "..", "spec", "CPR.tla")).read()
    body = re.search(r"Thr == <<(.*?)>>", src, re.S).group(1)
    thr = [int(x) for x in re.findall(r"\d+", body)]
    assert len(thr) == 58, len(thr)
    a = 1 - cos_dec(pi / 30)
    bad = 0
    for k, n in enumerate(range(59, 1, -1)):           # transition 59 -> 58 first
        # latitude where NL drops from n to n-1: cos^2(lat) = (1 - cos(pi/30)) / (1 - cos(2 pi / n))
        c2 = a / (1 - cos_dec(2 * pi / n))
        lat = acos_dec(c2.sqrt())                      # radians
        units = lat * C / (2 * pi)
        want = int(units.to_integral_value(rounding="ROUND_CEILING"))
        if n == 2:
            want = 87 * C // 360                         # NL = 1 above 87 degrees by definition
        if want != thr[k]:
            print(f"NL threshold {k+1} (NL {n}->{n-1}): spec {thr[k]} closed form {want}")
            bad += 1
    print("NL thresholds:", "ok" if not bad else f"{bad} differ")
    return 1 if bad else 0


if __name__ == "__main__":
    sys.exit(main())
