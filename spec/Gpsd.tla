-------------------------------- MODULE Gpsd --------------------------------
(***************************************************************************)
(* The only concurrency in the system: with --gpsd a second thread reads   *)
(* position fixes from a gpsd server and publishes them through an         *)
(* Arc<Mutex<Option<(lat, long)>>>; the main loop takes the lock once per  *)
(* iteration and copies the pair into settings.lat / settings.long (the    *)
(* receiver position every distance and the map centre are computed from). *)
(* Not a listed property; specified because it is behaviour of the system. *)
(*                                                                         *)
(* Locked = TRUE : the code - the pair is stored while holding the mutex.  *)
(* Locked = FALSE: named deviation - latitude and longitude stored one     *)
(*   after the other without the lock; TLC shows a torn pair is adopted.   *)
(***************************************************************************)
EXTENDS Integers, Sequences

CONSTANTS Fixes,        \* the fixes the server reports, in order: <<lat, lon>> pairs
          Locked

VARIABLES cell,         \* the shared Option<(lat, long)>: <<>> or <<lat, lon>>
          holder,       \* who holds the mutex: "none" | "gps" | "main"
          gpc, gi,      \* the gpsd thread: program counter, index of the fix being published
          mpc,          \* the main loop
          pos           \* settings.(lat, long): <<>> (the command-line position) or <<lat, lon>>
vars == <<cell, holder, gpc, gi, mpc, pos>>

Init == cell = <<>> /\ holder = "none" /\ gpc = "recv" /\ gi = 1 /\ mpc = "lock" /\ pos = <<>>

\* ---- gpsd thread ----
GRecv == gpc = "recv" /\ gi <= Len(Fixes) /\ gpc' = (IF Locked THEN "lock" ELSE "lat") /\ UNCHANGED <<cell, holder, gi, mpc, pos>>
GLock == gpc = "lock" /\ holder = "none" /\ holder' = "gps" /\ gpc' = "store" /\ UNCHANGED <<cell, gi, mpc, pos>>
GStore == gpc = "store" /\ cell' = Fixes[gi] /\ gpc' = "unlock" /\ UNCHANGED <<holder, gi, mpc, pos>>
GUnlock == gpc = "unlock" /\ holder' = "none" /\ gpc' = "recv" /\ gi' = gi + 1 /\ UNCHANGED <<cell, mpc, pos>>
\* deviation: two separate stores, no lock
GLat == gpc = "lat" /\ cell' = <<Fixes[gi][1], IF cell = <<>> THEN 0 ELSE cell[2]>> /\ gpc' = "lon" /\ UNCHANGED <<holder, gi, mpc, pos>>
GLon == gpc = "lon" /\ cell' = <<cell[1], Fixes[gi][2]>> /\ gpc' = "recv" /\ gi' = gi + 1 /\ UNCHANGED <<holder, mpc, pos>>
Gps == GRecv \/ GLock \/ GStore \/ GUnlock \/ GLat \/ GLon

\* ---- main loop ----
MLock == mpc = "lock" /\ holder = "none" /\ holder' = "main" /\ mpc' = "copy" /\ UNCHANGED <<cell, gpc, gi, pos>>
MCopy == mpc = "copy" /\ pos' = (IF cell = <<>> THEN pos ELSE cell) /\ mpc' = "unlock" /\ UNCHANGED <<cell, holder, gpc, gi>>
MUnlock == mpc = "unlock" /\ holder' = "none" /\ mpc' = "rest" /\ UNCHANGED <<cell, gpc, gi, pos>>
MRest == mpc = "rest" /\ mpc' = "lock" /\ UNCHANGED <<cell, holder, gpc, gi, pos>>          \* read the feed, draw, handle input
Main == MLock \/ MCopy \/ MUnlock \/ MRest

Next == Gps \/ Main
Spec == Init /\ [][Next]_vars
\* std::sync::Mutex promises no fairness: under weak fairness alone TLC finds the run in which the main loop re-takes the
\* lock every time before the gpsd thread gets it (LastFixAdopted fails).  Adoption needs strong fairness of the two
\* acquisitions - in the program the main loop holds the lock for a copy and then sleeps in poll() for 10 ms.
FairSpec == Spec /\ WF_vars(Gps) /\ WF_vars(Main) /\ SF_vars(GLock) /\ SF_vars(MLock)
WeakFairSpec == Spec /\ WF_vars(Gps) /\ WF_vars(Main)

\* ---- properties ----
IndexOf(p) == IF p = <<>> THEN 0 ELSE IF \E i \in 1..Len(Fixes) : Fixes[i] = p THEN CHOOSE i \in 1..Len(Fixes) : Fixes[i] = p ELSE -1
\* the receiver position is always the command-line one or a fix the server reported - never half of one and half of another
NoTornPair == IndexOf(pos) >= 0
\* positions are adopted in the order they were reported
NeverBackwards == [][IndexOf(pos') >= IndexOf(pos)]_vars
MutualExclusion == ~(gpc \in {"store", "unlock"} /\ mpc \in {"copy", "unlock"})
\* the last fix is eventually the receiver position, and stays
LastFixAdopted == <>[](Len(Fixes) > 0 => pos = Fixes[Len(Fixes)])
=============================================================================
