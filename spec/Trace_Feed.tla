----------------------------- MODULE Trace_Feed -----------------------------
(***************************************************************************)
(* Trace specification for client runs against a scripted feed (C16).      *)
(* One event per run:                                                      *)
(*   sent     the complete lines of the feed, in order, each with the text *)
(*            between `*` and `;` and whether it is well formed (wf)       *)
(*   printed  the lines the client took from the stream (1090: what it     *)
(*            prints before decoding; radar: the hook's `line` events)     *)
(*   alive    the client was still running when the feed had been idle     *)
(*   mode     hold | close | retry ; exit, panic                           *)
(* Level A: the well-formed lines are processed exactly once and in order  *)
(* whatever the segmentation, and nothing else is processed as a frame     *)
(* (no part of a malformed line, no line that lost some of its bytes);     *)
(* nothing terminates the client but the server                            *)
(* closing the connection, upon which radar exits with status 0, or with   *)
(* retry reconnects and still tracks what it tracked.                      *)
(***************************************************************************)
EXTENDS Integers, Sequences, FiniteSets, Json, IOUtils, TLC

Rec == ndJsonDeserialize(IOEnv.TRACE)
VARIABLE l
vars == <<l>>

SeqSet(s) == {s[i] : i \in 1..Len(s)}
WF(ev) == SelectSeq(ev.sent, LAMBDA x : x.wf = 1)
WFText(ev) == [i \in 1..Len(WF(ev)) |-> WF(ev)[i].text]

EvDiff(ev) ==
  LET want == WFText(ev)
      got == SelectSeq(ev.printed, LAMBDA s : s \in SeqSet(want))
  IN (IF got = want THEN {}
      ELSE IF Len(got) < Len(want) /\ got = SubSeq(want, 1, Len(got)) /\ ev.alive = 0 THEN {}   \* the crash is the finding, not the lines after it
      ELSE IF \E i \in 1..Len(want) : want[i] \notin SeqSet(got) THEN {"line_lost"}
      ELSE IF Len(got) > Len(want) THEN {"line_duplicated"} ELSE {"line_order"})
     \* lines that are not well-formed frames are skipped: every well-formed text the client took (`taken`: the printed
     \* entries that are hex digits in pairs) is what the clients' framing makes of a complete line of the feed (`body`: the
     \* line without its first character and its last one before the newline - neither client looks at those two)
     \cup (IF \E i \in 1..Len(ev.taken) : ev.taken[i] \notin {ev.sent[k].body : k \in 1..Len(ev.sent)} THEN {"malformed_line_processed"} ELSE {})
     \cup (IF ev.panic = 1 THEN {"panic"} ELSE {})
     \cup (IF ev.mode = "hold" /\ ev.alive = 0 THEN {"terminated"} ELSE {})
     \cup (IF ev.mode = "close" /\ ev.client = "radar" /\ ~(ev.alive = 0 /\ ev.exit = 0) THEN {"disconnect_exit"} ELSE {})
     \cup (IF ev.mode = "retry" /\ ev.alive = 0 THEN {"terminated"} ELSE {})
     \cup (IF ev.mode = "retry" /\ ~(SeqSet(ev.keys_before) \subseteq SeqSet(ev.keys_after)) THEN {"retry_lost_aircraft"} ELSE {})
     \cup (IF ev.mode = "retry" /\ ev.reconnected = 0 THEN {"retry_no_reconnect"} ELSE {})

\* composition with the renderer: the text 1090 prints for a line is the library's rendering of that frame
TextDrift(ev) == \E k \in 1..Len(ev.texts) : ev.texts[k].got # ev.texts[k].want

Judge(i) == LET ev == Rec[i]  d == EvDiff(ev) IN
            /\ (IF d = {} THEN TRUE ELSE PrintT(<<"VERDICT", i, "feed|" \o ev.client \o "|" \o ev.tag, {<<"C16", f>> : f \in d}>>))
            /\ (IF TextDrift(ev) THEN PrintT(<<"INFO", "MODEL-DRIFT", i, "client_text">>) ELSE TRUE)

Init == l = 1
Next == l <= Len(Rec) /\ Judge(l) /\ l' = l + 1
Spec == Init /\ [][Next]_vars
Accepted == IF TLCGet("stats").diameter = Len(Rec) + 1 THEN TRUE
            ELSE PrintT(<<"TRACE-NOT-CONSUMED", TLCGet("stats").diameter, Len(Rec)>>) /\ FALSE
=============================================================================
