------------------------------ MODULE RadarLoop -----------------------------
EXTENDS RadarUI

CONSTANTS MaxRows, MaxBurst, MaxSteps, Touch,      \* bounds of the machine
          KeysA, MouseA, BtnOn                      \* input alphabets and touchscreen button rows

(***************************************************************************)
(* The main loop as a machine over the handlers above: draw, then up to    *)
(* MaxBurst input events, then the loop goes round (traffic may arrive,    *)
(* aircraft may expire) and draws again.  Statistics are updated when an   *)
(* aircraft arrives (after the frame, before expiry).                      *)
(***************************************************************************)
VARIABLES s, rows, det, phase, burst, hist, steps,
          total, most, adds,         \* statistics tab: aircraft ever added, largest simultaneous count; adds = history of arrivals
          drawn,                     \* the tab that was drawn last: the mouse handler works with the geometry of that draw
          sigs                       \* history: in which kind of state each step was taken (for choosing the behaviours to replay)
vars == <<s, rows, det, phase, burst, hist, steps, total, most, adds, drawn, sigs>>
View == <<s, rows, det, phase, burst, steps, total, most, adds, drawn>>

RX == [lat |-> 52000000, lon |-> 4000000]
PosOf(i) == [lat |-> 52100000 + 10000 * i, lon |-> 4200000]
\* (a key may have changed the tab since: the touchscreen buttons exist where they were drawn, not where the state points)
Btn == IF Touch /\ drawn \in {0, 1} THEN BtnOn ELSE << >>
LeftEdge == IF Touch /\ drawn \in {0, 1} THEN 11 ELSE 1

Init == /\ s = Init0 /\ rows = 0 /\ det = << >> /\ phase = "draw" /\ burst = 0 /\ hist = << >> /\ steps = 0
        /\ total = 0 /\ most = 0 /\ adds = 0 /\ drawn = 0 /\ sigs = << >>

Alive == ~s.panicked /\ ~s.quit /\ steps < MaxSteps
\* the kind of state a step starts from: tab, selection (none / on a row / beyond the rows), rows, tab drawn last
Sig == <<s.tab, IF s.sel = NoSel THEN 0 ELSE IF s.sel < rows THEN 1 ELSE 2, rows, drawn>>
Step(tag) == /\ steps' = steps + 1 /\ hist' = Append(hist, tag) /\ sigs' = Append(sigs, Sig)

Draw == /\ Alive /\ phase = "draw"
        /\ s' = DrawStep(s, rows) /\ phase' = "events" /\ burst' = 0 /\ drawn' = s.tab
        /\ Step(<<"draw">>) /\ UNCHANGED <<rows, det, total, most, adds>>
Key(i) == /\ Alive /\ phase = "events" /\ burst < MaxBurst
          /\ s' = KeyStep(s, KeysA[i], FALSE, rows, LAMBDA k : det[k + 1], PosOf, RX)
          /\ burst' = burst + 1 /\ Step(<<"key", KeysA[i]>>) /\ UNCHANGED <<rows, det, phase, total, most, adds, drawn>>
Mouse(i) == /\ Alive /\ phase = "events" /\ burst < MaxBurst
            /\ s' = MouseStep(s, MouseA[i][1], MouseA[i][2], MouseA[i][3], Btn, LeftEdge, RX)
            /\ burst' = burst + 1 /\ Step(<<"mouse", MouseA[i][1], MouseA[i][2], MouseA[i][3]>>) /\ UNCHANGED <<rows, det, phase, total, most, adds, drawn>>
\* the loop goes round: traffic may arrive / aircraft may expire before the next draw
Loop == /\ Alive /\ phase = "events"
        /\ \/ UNCHANGED <<rows, det, total, most, adds>> /\ Step(<<"loop">>)
           \/ /\ rows < MaxRows /\ \E d \in BOOLEAN : det' = Append(det, d) /\ Step(<<"arrive", IF d THEN 1 ELSE 0>>)
              /\ rows' = rows + 1
              \* Stats::update runs after the frame was handed to the tracker and before expiry
              /\ total' = total + 1 /\ adds' = adds + 1 /\ most' = IF rows + 1 > most THEN rows + 1 ELSE most
           \/ /\ rows > 0 /\ rows' = 0 /\ det' = << >> /\ Step(<<"expire">>) /\ UNCHANGED <<total, most, adds>>
        /\ phase' = "draw" /\ UNCHANGED <<s, burst, drawn>>

Next == Draw \/ (\E i \in 1..Len(KeysA) : Key(i)) \/ (\E i \in 1..Len(MouseA) : Mouse(i)) \/ Loop
Spec == Init /\ [][Next]_vars

NoPanic == ~s.panicked
=============================================================================
