SPECIFICATION Spec
CONSTANTS
  Guards <- MCGuards
  MaxRows <- MCMaxRows
  MaxBurst <- MCMaxBurst
  MaxSteps <- MCMaxSteps
  Touch <- MCTouch
  KeysA <- MCKeysA
  MouseA <- MCMouseA
  BtnOn <- MCBtnOn
INVARIANT Inv
INVARIANT Replay
PROPERTY ViewOnly
VIEW View
CHECK_DEADLOCK FALSE
