SPECIFICATION Spec
CONSTANTS
  Guards <- MCGuards
INVARIANT Inv
INVARIANT Replay
PROPERTY ViewOnly
VIEW View
CHECK_DEADLOCK FALSE
