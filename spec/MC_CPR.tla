------------------------------- MODULE MC_CPR -------------------------------
(* Step D for C05: encode / global-decode round trip on the specification (CPR.tla), over a grid of true positions:   *)
(* every latitude zone row of both grids at boundary offsets, the poles, the equator, every NL transition +- a few     *)
(* units, longitudes including the antimeridian, and a displacement between the two reports.                         *)
(* A state is one true position (latitude u in units, longitude as zone numerator) and one displacement.              *)
(* Checked: the pair decodes (or straddles an NL transition), the result re-encodes to the second report's own CPR     *)
(* values, lies within one CPR step of the second report's position, and is in range.                                 *)
EXTENDS CPR, TLC

ZoneOffs == {0, 1, 59, 3866624, 7733247}                               \* offsets inside a 6-degree even zone (units)
BaseLats == {z * (C \div 60) + o : z \in -15..14, o \in ZoneOffs}
TransLats == {s * (Thr[k] + d) : k \in 1..58, d \in {-61, -1, 0, 1, 61}, s \in {-1, 1}}
Lats == {u \in BaseLats \cup TransLats \cup {0, C \div 4, -(C \div 4), C \div 4 - 1} : u >= -(C \div 4) /\ u <= C \div 4}
Disp == {0, 60, -59, 3000}                                             \* latitude displacement of the second report (units; 3000 = 2.3 km)
LonFrac == {0, 1, 65536, 131071}                                       \* position inside a longitude zone
VARIABLES u, d, zf, xf
vars == <<u, d, zf, xf>>
Init == u \in Lats /\ d \in Disp /\ zf \in {0, 1, 2} /\ xf \in LonFrac
Next == UNCHANGED vars
Spec == Init /\ [][Next]_vars

Clamp(v) == IF v > C \div 4 THEN C \div 4 ELSE IF v < -(C \div 4) THEN -(C \div 4) ELSE v
\* the two reports: first from latitude u, second (the later one) from latitude u + d; longitude given in the zone system
\* of the first report's reconstructed latitude
RoundTrip(firstOdd) ==
  LET u2 == Clamp(u + d)
      sOdd == 1 - firstOdd
      n1 == LET nl == NL(RLat(u, firstOdd)) IN IF nl - firstOdd < 1 THEN 1 ELSE nl - firstOdd
      n2 == LET nl == NL(RLat(u2, sOdd)) IN IF nl - sOdd < 1 THEN 1 ELSE nl - sOdd
      z == CASE zf = 0 -> 0 [] zf = 1 -> n1 \div 2 [] OTHER -> n1 - 1           \* first, middle (antimeridian) and last zone
      lam == z * P17 + xf                                                          \* numerator over n1 * 2^17
      first == [odd |-> firstOdd, lat |-> EncLat(u, firstOdd), lon |-> lam % P17]
      second == [odd |-> sOdd, lat |-> EncLat(u2, sOdd), lon |-> EncLonIn(lam, n1, n2)]
      r == GlobalDecode(first, second)
      straddle == NL(RLat(u, firstOdd)) # NL(RLat(u2, sOdd))
  IN IF r.some = 0 THEN straddle \/ AbsC(RLat(u, firstOdd)) > C \div 4 \/ AbsC(RLat(u2, sOdd)) > C \div 4
     ELSE /\ r.latU = RLat(u2, sOdd)                                   \* the second report's own latitude
          /\ r.L % P17 = second.lon \/ (r.L + r.ni * P17) % P17 = second.lon   \* re-encodes to the second report's longitude
          /\ AbsC(r.latU) <= C \div 4 /\ 2 * r.L < r.ni * P17 /\ 2 * r.L >= -(r.ni * P17)
RoundTripOK == RoundTrip(0) /\ RoundTrip(1)

\* spec -> impl: the two reports of every state, in both orders, as replay vectors for the real pairing function
Reports(firstOdd) ==
  LET u2 == Clamp(u + d)
      sOdd == 1 - firstOdd
      n1 == LET nl == NL(RLat(u, firstOdd)) IN IF nl - firstOdd < 1 THEN 1 ELSE nl - firstOdd
      n2 == LET nl == NL(RLat(u2, sOdd)) IN IF nl - sOdd < 1 THEN 1 ELSE nl - sOdd
      z == CASE zf = 0 -> 0 [] zf = 1 -> n1 \div 2 [] OTHER -> n1 - 1
      lam == z * P17 + xf
  IN <<firstOdd, EncLat(u, firstOdd), lam % P17, EncLat(u2, sOdd), EncLonIn(lam, n1, n2)>>
Replay == PrintT(<<"REPLAY", Reports(0), Reports(1)>>)
=============================================================================
