---------------------------- MODULE Trace_Reader ----------------------------
(***************************************************************************)
(* Trace specification for decoding from a scripted reader (C19).          *)
(* Level A: the result under any read schedule equals the result of        *)
(* decoding the same bytes from a slice, and decoding is a function of the *)
(* bytes (the same bytes decode to the same result after other frames      *)
(* were decoded in between).  Both are also compared with the decoder      *)
(* contract Frame!Expect (fields owned by their own properties).           *)
(* Level I (drift only): the observed inner calls must be explainable as   *)
(* read_exact retry loops over the reference program of the frame.         *)
(***************************************************************************)
EXTENDS Frame, Json, IOUtils

Rec == ndJsonDeserialize(IOEnv.TRACE)
VARIABLE l
vars == <<l>>

\* merge retry loops: a read that returned fewer bytes than wanted (or was interrupted) is continued by
\* the next read; yields the sequence of completed operations <<"r", n>> / <<"s", off>>
RECURSIVE Merge(_, _, _, _)
Merge(calls, i, pending, acc) ==
  IF i > Len(calls) THEN (IF pending = 0 THEN acc ELSE Append(acc, <<"incomplete", pending>>))
  ELSE LET c == calls[i] IN
       IF c[1] = "s" THEN Merge(calls, i + 1, 0, Append(acc, <<"s", c[3]>>))
       ELSE LET want == c[2]  got == c[3] IN
            IF got = -1 THEN Merge(calls, i + 1, pending, acc)                          \* interrupted: retried
            ELSE IF pending = 0
                 THEN (IF got = want THEN Merge(calls, i + 1, 0, Append(acc, <<"r", want>>))
                       ELSE IF got = 0 THEN Append(acc, <<"eof", want>>)
                       ELSE Merge(calls, i + 1, want - got, Append(acc, <<"r", want>>)))
                 ELSE (IF got = want /\ want = pending THEN Merge(calls, i + 1, 0, acc)
                       ELSE IF got = 0 THEN Append(acc, <<"eof", want>>)
                       ELSE IF want = pending THEN Merge(calls, i + 1, pending - got, acc)
                       ELSE Append(acc, <<"bad-retry", want>>))
Ops(calls) == Merge(calls, 1, 0, <<>>)

\* ev.hard > 0: a read or a seek of the reader failed for good (not a transient error): the decode must report an error -
\* not panic, not produce a frame from what it had
EvDiff(ev) ==
     (IF ev.hard > 0 THEN (IF ev.out = [ok |-> 0] \/ ev.outcome = "panic" THEN {} ELSE {"hard_error_swallowed"})
      ELSE IF ev.out = ev.plain THEN {} ELSE {"reader_differs"})
  \cup (IF ev.again = ev.plain THEN {} ELSE {"impure"})
  \cup (IF ev.outcome = "panic" THEN {"panic"} ELSE {})

Drift(ev) == "ref" \in DOMAIN ev /\ ev.hard = 0 /\ Ops(ev.calls) # Ops(ev.ref)

Judge(i) ==
  LET ev == Rec[i]
      d == EvDiff(ev)
      \* the slice decode and the reader decode themselves, judged for their own properties (a wrong checksum on the
      \* reader path is C03's whether or not the slice path agrees)
      own == Diff(ev.plain, ev.bytes) \cup (IF ev.hard = 0 /\ "ok" \in DOMAIN ev.out /\ ev.out.ok \in {0, 1} THEN Diff(ev.out, ev.bytes) ELSE {})
             \* a decode that consumed the wrong number of bytes still reported a checksum for the frame: judged as such
             \cup (IF ev.hard = 0 /\ "ok" \in DOMAIN ev.out /\ ev.out.ok = 4 /\ Expect(ev.bytes).ok = 1 /\ ev.out.crc # Expect(ev.bytes).crc
                   THEN {"crc"} ELSE {})
             \* ... and the decode that follows it on the same stream is taken for the second frame (the same bytes again):
             \* the checksum reported with it is not that frame's syndrome
             \cup (IF ev.hard = 0 /\ "next_ok" \in DOMAIN ev.out /\ ev.out.ok = 4 /\ ev.out.next_ok = 1 /\ Expect(ev.bytes).ok = 1
                      /\ ev.out.next_crc # Expect(ev.bytes).crc
                   THEN {"crc"} ELSE {})
  IN /\ (IF d = {} THEN TRUE ELSE PrintT(<<"VERDICT", i, "reader|" \o ev.tag \o "|" \o Class(ev.bytes),
                                           {<<"C19", f>> : f \in d} \cup (IF "panic" \in d THEN {<<"C01", "panic">>} ELSE {})>>))
     /\ (IF own = {} THEN TRUE ELSE PrintT(<<"VERDICT", i, Class(ev.bytes), {<<Owner(f), f>> : f \in own}>>))
     /\ (IF Drift(ev) THEN PrintT(<<"INFO", "MODEL-DRIFT", i, ev.tag>>) ELSE TRUE)

Init == l = 1
Next == l <= Len(Rec) /\ Judge(l) /\ l' = l + 1
Spec == Init /\ [][Next]_vars
Accepted == IF TLCGet("stats").diameter = Len(Rec) + 1 THEN TRUE
            ELSE PrintT(<<"TRACE-NOT-CONSUMED", TLCGet("stats").diameter, Len(Rec)>>) /\ FALSE
=============================================================================
