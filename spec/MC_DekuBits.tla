----------------------------- MODULE MC_DekuBits ----------------------------
(* Evaluates DekuBits' Level-A lemmas (its ASSUMEs) and prints, for every shape, the byte-level read/seek calls the  *)
(* bit machine predicts - one PROGRAM tuple per shape, compared by the driver with the calls of the real decoder.     *)
EXTENDS DekuBits
VARIABLE x
Init == x = 0
Next == x' = x
Spec == Init /\ [][Next]_x
PrintPrograms == \A s \in Shapes : PrintT(<<"PROGRAM", ShapeKey(s), IoText(Run(Program(s, "none")).io), IoText(Run(Program(s, "none")).tr)>>)
=============================================================================
