---------------------------- MODULE Trace_Tracker ---------------------------
(***************************************************************************)
(* Trace specification for the tracker (C12-C15, and the serde part of     *)
(* C20).  Every event carries the complete projected state after the step; *)
(* each step is judged from the *observed* state before it, with the rules *)
(* of Tracker.tla instantiated with real geometry: CPR!GlobalDecode for    *)
(* pairing, Geo for distances (guard band of 25 m around the two           *)
(* thresholds, inside which either outcome is accepted).                   *)
(***************************************************************************)
EXTENDS Tracker, Frame, Velocity, CPR, Geo, Json, IOUtils, FiniteSets

Rec == ndJsonDeserialize(IOEnv.TRACE)

PosTol == 3            \* micro-degrees
Band == 25             \* metres around the range and jump thresholds
MaxJump == 100000      \* metres

VARIABLES l, pre, rx, range, now, frac, heard,
          gone          \* addresses that were tracked and have been expired since the last reset
vars == <<l, pre, rx, range, now, frac, heard, gone>>

\* ---- observed projection -> abstract record -------------------------------------------------
SeqMap(s, Op(_)) == [i \in 1..Len(s) |-> Op(s[i])]
TrackPos(t) == SeqMap(t, LAMBDA x : [some |-> 1, lat |-> x[1], lon |-> x[2]])
Slot(o) == [some |-> o.some, lat |-> o.lat, lon |-> o.lon, alt |-> o.alt]
AbsRec(o) == [n |-> o.n, cs |-> [some |-> o.hascs, s |-> o.cs],
              vel |-> [some |-> o.hasvel, h |-> o.hdg4, g |-> o.spd, v |-> o.vr],
              even |-> Slot(o.even), odd |-> Slot(o.odd), pos |-> o.pos, dist |-> o.dist, track |-> TrackPos(o.track)]
\* planes as a function address -> observed record
AsMap(list) == [a \in {list[i].addr : i \in 1..Len(list)} |-> (CHOOSE r \in {list[i] : i \in 1..Len(list)} : r.addr = a)]
DistinctAddrs(list) == Cardinality({list[i].addr : i \in 1..Len(list)}) = Len(list)

\* ---- the frame as the tracker should see it (from the bytes, by the decoder contract) ----------
FrameOf(b) ==
  LET e == Expect(b) IN
  IF e.ok = 0 \/ e.df \notin {17, 18} THEN [kind |-> "none", addr |-> 0]
  ELSE LET k == e.mek IN
       [kind |-> CASE k = 1 -> "ident" [] k = 4 -> "vel" [] k \in {3, 5} -> "pos" [] OTHER -> "es",
        addr |-> e.aa]                              \* DF17: AA; DF18: the address announced in the control field

\* ---- geometry -------------------------------------------------------------------------------
CandOf(ev, od, latestOdd) ==
  LET first == IF latestOdd = 1 THEN [odd |-> 0, lat |-> ev.lat, lon |-> ev.lon] ELSE [odd |-> 1, lat |-> od.lat, lon |-> od.lon]
      second == IF latestOdd = 1 THEN [odd |-> 1, lat |-> od.lat, lon |-> od.lon] ELSE [odd |-> 0, lat |-> ev.lat, lon |-> ev.lon]
      d == GlobalDecode(first, second)
  IN IF d.some = 0 THEN NoPos ELSE [some |-> 1, lat |-> LatUdeg(d, second.odd), lon |-> LonUdeg(d)]

LonDiffUD(a, b) == LET d == AbsT(a - b) % FullUD IN IF d > FullUD \div 2 THEN FullUD - d ELSE d
PosClose(p, c) == AbsT(p.lat - c.lat) <= PosTol /\ LonDiffUD(p.lon, c.lon) <= PosTol

\* positioned track entries: exactly the superseded publications (a republished identical position or a
\* cleared one may or may not be recorded: the property does not say)
TrackOK(t0, t1, old, new, published) ==
  IF old.pos.some = 0 THEN t1 = t0
  ELSE IF published THEN t1 = Append(t0, old.pos) \/ (t1 = t0 /\ PosClose(new.pos, old.pos))
  ELSE t1 = t0 \/ t1 = Append(t0, old.pos)

\* position report: old / new abstract records, t = old with the report stored
PosOK(old, new, par, rep) ==
  LET t == IF par = 0 THEN [old EXCEPT !.even = rep] ELSE [old EXCEPT !.odd = rep] IN
  IF t.even.some = 0 \/ t.odd.some = 0
  THEN [new EXCEPT !.track = old.track] = [t EXCEPT !.n = new.n]       \* stored, nothing else changes (the track: TrackStepOK)
  ELSE \E latestOdd \in {0, 1} :
         LET c == CandOf(t.even, t.odd, latestOdd)
             mayPublish == /\ c.some = 1
                           /\ ~Beyond(rx, c, range, Band)
                           /\ (old.pos.some = 0 \/ ~Beyond(old.pos, c, MaxJump, Band))
             mayClear   == \/ c.some = 0
                           \/ ~Within(rx, c, range, Band)
                           \/ (old.pos.some = 1 /\ ~Within(old.pos, c, MaxJump, Band))
         IN \/ /\ mayPublish
               /\ new.pos.some = 1 /\ PosClose(new.pos, c)
               \* the pairing's longitude lies in [-180, 180) (C05): the same place a whole turn away is not the pairing
               \* (micro-degrees as recorded: 179.9999997 is recorded as 180000000)
               /\ new.pos.lon >= -180000000 /\ new.pos.lon <= 180000000
               /\ new.even = t.even /\ new.odd = t.odd
               /\ new.dist.some = 1 /\ DistOK(new.dist.m, rx, new.pos, 5 + new.dist.m \div 1000000)
               /\ new.cs = old.cs /\ new.vel = old.vel
            \/ /\ mayClear
               /\ new.pos = NoPos /\ new.dist = NoDist /\ new.even = NoRep /\ new.odd = NoRep
               /\ new.cs = old.cs /\ new.vel = old.vel

\* components of a record that changed although the frame's payload does not carry them
Changed(old, new, allowed) ==
     (IF "cs" \notin allowed /\ new.cs # old.cs THEN {"changed_cs"} ELSE {})
  \cup (IF "vel" \notin allowed /\ new.vel # old.vel THEN {"changed_vel"} ELSE {})
  \cup (IF "pos" \notin allowed /\ (new.even # old.even \/ new.odd # old.odd \/ new.pos # old.pos \/ new.dist # old.dist)
        THEN {"changed_position"} ELSE {})
  \cup (IF "pos" \notin allowed /\ new.track # old.track THEN {"changed_track"} ELSE {})

\* the track after a position report (C14): a publication appends the superseded position, nothing else touches it
TrackStepOK(old, new, par, rep) ==
  LET t == IF par = 0 THEN [old EXCEPT !.even = rep] ELSE [old EXCEPT !.odd = rep] IN
  IF t.even.some = 0 \/ t.odd.some = 0 THEN new.track = old.track
  ELSE TrackOK(old.track, new.track, old, new, new.pos.some = 1)

\* which parts of a record an ES frame may change, by payload
RecDiff(old, new, b) ==
  LET e == Expect(b)  k == e.mek  r == VelRaw(b, 32) IN
     (IF new.n = old.n + 1 THEN {} ELSE {"n"})
  \cup
     (CASE k = 1 -> (IF new.cs.some = 1 /\ CallsignOK(new.cs.s, CsFull(b)) THEN {} ELSE {"cs"})
                    \cup Changed(old, new, {"cs"})
        [] k = 4 -> IF HasDerived(r)
                    THEN (IF new.vel.some = 7 /\ HeadingOK(new.vel.h, East(r), North(r)) THEN {} ELSE {"heading"})
                         \cup (IF new.vel.some = 7 /\ SpeedOK(new.vel.g, East(r), North(r)) THEN {} ELSE {"speed"})
                         \cup (IF new.vel.some = 7 /\ new.vel.v = VRate(r) THEN {} ELSE {"vrate"})
                         \cup Changed(old, new, {"vel"})
                    ELSE Changed(old, new, {})
        [] k \in {3, 5} -> LET alt == IF e.tc \in (9..18) \cup (20..22) THEN Loose(b).alt ELSE {-1}
                               rep == [some |-> 1, lat |-> e.lat, lon |-> e.lon,
                                       alt |-> IF e.f = 0 THEN new.even.alt ELSE new.odd.alt]
                               stored == IF e.f = 0 THEN new.even ELSE new.odd
                           IN (IF PosOK(old, new, e.f, rep) THEN {} ELSE {"position"})
                              \cup (IF TrackStepOK(old, new, e.f, rep) THEN {} ELSE {"track"})
                              \cup (IF stored.some = 0 \/ stored.alt \in alt THEN {} ELSE {"altitude"})
        [] OTHER -> Changed(old, new, {}))

\* derived views of one observed record (C14)
ViewDiff(o) ==
  LET r == AbsRec(o) IN
     (IF r.dist.some = r.pos.some THEN {} ELSE {"dist_iff_pos"})
  \cup (IF o.inpos = r.pos.some THEN {} ELSE {"all_position"})
  \cup (IF o.det = 1 => (r.pos.some = 1 /\ r.dist.some = 1 /\ o.detalt \in AltOptions(r)
                        /\ o.detpos[1] = r.pos.lat /\ o.detpos[2] = r.pos.lon) THEN {} ELSE {"details"})
  \cup (IF (r.pos.some = 1 /\ r.dist.some = 1 /\ r.even.some = 1 /\ r.even.alt >= 0 /\ r.odd.some = 1 /\ r.odd.alt >= 0) => o.det = 1
        THEN {} ELSE {"details_missing"})
  \cup (IF o.indisp = o.det THEN {} ELSE {"display"})
  \cup (IF (r.pos.some = 1) => (r.even.some = 1 /\ r.odd.some = 1) THEN {} ELSE {"pos_without_pair"})

Views(post) == UNION {ViewDiff(post[a]) : a \in DOMAIN post}

ActionDiff(ev) ==
  IF ev.outcome = "panic" THEN {"panic"}
  ELSE IF ~DistinctAddrs(ev.planes) THEN {"duplicate_record"}
  ELSE LET post == AsMap(ev.planes)
           f == FrameOf(ev.bytes)
       IN IF f.kind = "none"
          THEN (IF post = pre THEN {} ELSE {"other_format_changed_state"})
               \cup (IF ev.added = 0 THEN {} ELSE {"added"})
          ELSE LET a == f.addr
                   isnew == a \notin DOMAIN pre
                   old == IF isnew THEN Fresh ELSE AbsRec(pre[a])
               IN (IF DOMAIN post = DOMAIN pre \cup {a} THEN {} ELSE {"tracked_set"})
                  \cup (IF ev.added = (IF isnew THEN 1 ELSE 0) THEN {} ELSE {"added"})
                  \* an expired aircraft that is heard again is reported as newly added (C15's own clause)
                  \cup (IF isnew /\ a \in gone /\ ev.added # 1 THEN {"readded_not_reported"} ELSE {})
                  \cup (IF \A c \in DOMAIN pre \cap DOMAIN post : c # a => post[c] = pre[c] THEN {} ELSE {"isolation"})
                  \cup (IF a \in DOMAIN post THEN RecDiff(old, AbsRec(post[a]), ev.bytes) ELSE {"record_missing"})
                  \cup Views(post)

PruneDiff(ev) ==
  IF ev.outcome # "ok" THEN {"panic", "prune_failed"}     \* an expiry that does not complete removed "exactly" nothing it should
  ELSE IF ~DistinctAddrs(ev.planes) THEN {"duplicate_record"}
  ELSE LET post == AsMap(ev.planes)
           \* time is whole seconds plus milliseconds (ticks may be fractions of a second); El = whole seconds since the
           \* aircraft was last heard, Fr = the milliseconds beyond; T is whole seconds, so "T or more seconds ago" is El >= T
           El(a) == LET ds == now - heard[a].s  dm == frac - heard[a].ms IN IF dm < 0 THEN ds - 1 ELSE ds
           Fr(a) == ((frac - heard[a].ms) + 1000) % 1000
           \* the recorded ticks are the clock the history means; the run itself takes real time on top (wall_ms, measured by
           \* the recorder): an aircraft closer to its due time than that is neither required to stay nor to go
           wall == IF "wall_ms" \in DOMAIN ev THEN ev.wall_ms ELSE 0
           due == {a \in DOMAIN pre : a \notin DOMAIN heard \/ El(a) >= ev.T}
           sure == {a \in DOMAIN pre : a \in DOMAIN heard /\ (IF ev.T > 2000000 \/ El(a) > 2000000 THEN El(a) < ev.T
                                                                  ELSE El(a) * 1000 + Fr(a) + wall < ev.T * 1000)}
       IN (IF sure \subseteq DOMAIN post /\ DOMAIN post \subseteq (DOMAIN pre \ due) THEN {} ELSE {"expired_set"})
          \* C12's own clause: the set shrinks through expiry only - a record that was not due and is gone was lost
          \cup (IF sure \subseteq DOMAIN post THEN {} ELSE {"removed_not_due"})
          \cup (IF \A a \in DOMAIN post \cap DOMAIN pre : post[a] = pre[a] THEN {} ELSE {"survivor_changed"})

SerdeDiff(ev) ==
  IF ev.outcome # "ok" THEN {"serde_failed"}
  ELSE IF ~DistinctAddrs(ev.planes) THEN {"duplicate_record"}
  ELSE IF AsMap(ev.planes) = pre THEN {} ELSE {"serde_roundtrip"}

OwnerOf(f) ==
  CASE f \in {"n", "added", "tracked_set", "isolation", "other_format_changed_state", "duplicate_record", "record_missing", "untouched", "removed_not_due"} -> "C12"
    [] f \in {"position", "changed_position"} -> "C13"
    [] f \in {"cs", "heading", "speed", "vrate", "altitude", "changed_cs", "changed_vel", "changed_track", "track", "dist_iff_pos", "all_position", "details", "details_missing",
              "display", "pos_without_pair"} -> "C14"
    [] f \in {"expired_set", "survivor_changed", "readded_not_reported", "prune_failed"} -> "C15"
    [] f \in {"serde_failed", "serde_roundtrip"} -> "C20"
    [] OTHER -> "C01"                                   \* panic

EvDiff(ev) == CASE ev.ev = "action" -> ActionDiff(ev)
                [] ev.ev = "prune" -> PruneDiff(ev)
                [] ev.ev = "serde" -> SerdeDiff(ev)
                [] OTHER -> {}

ClassOf(ev) == IF ev.ev = "action" THEN "track|" \o Class(ev.bytes) ELSE "track|" \o ev.ev

Judge(ev) == LET d == EvDiff(ev) IN
             IF d = {} THEN TRUE ELSE PrintT(<<"VERDICT", l, ClassOf(ev), {<<OwnerOf(f), f>> : f \in d}>>)

Init == /\ l = 1 /\ pre = << >> /\ rx = [lat |-> 0, lon |-> 0] /\ range = 0 /\ now = 0 /\ frac = 0 /\ heard = << >> /\ gone = {}
Stamp == [s |-> now, ms |-> frac]

Consume ==
  /\ l <= Len(Rec)
  /\ LET ev == Rec[l] IN
     /\ Judge(ev)
     /\ l' = l + 1
     /\ gone' = IF ev.ev = "reset" THEN {}
                ELSE IF ev.ev = "prune" /\ ev.outcome = "ok" /\ DistinctAddrs(ev.planes) THEN gone \cup (DOMAIN pre \ DOMAIN AsMap(ev.planes))
                ELSE gone
     /\ CASE ev.ev = "reset" -> /\ pre' = << >> /\ rx' = ev.rx /\ range' = ev.range_m /\ now' = 0 /\ frac' = 0 /\ heard' = << >>
          [] ev.ev = "action" ->
               LET post == IF ev.outcome = "panic" \/ ~DistinctAddrs(ev.planes) THEN pre ELSE AsMap(ev.planes)
                   f == FrameOf(ev.bytes)
               IN /\ pre' = post /\ UNCHANGED <<rx, range, now, frac>>
                  /\ heard' = LET h0 == [a \in DOMAIN post \cap DOMAIN heard |-> heard[a]]
                                  h1 == [a \in DOMAIN post \ DOMAIN heard |-> Stamp]        \* resynchronise on the observed set
                                  h == h0 @@ h1
                              IN IF f.kind # "none" /\ f.addr \in DOMAIN h THEN [h EXCEPT ![f.addr] = Stamp] ELSE h
          [] ev.ev = "tick" -> LET ms == frac + (IF "ms" \in DOMAIN ev THEN ev.ms ELSE 0)
                               IN /\ now' = now + ev.secs + ms \div 1000 /\ frac' = ms % 1000 /\ UNCHANGED <<pre, rx, range, heard>>
          [] ev.ev \in {"prune", "serde"} ->
               LET post == IF ev.outcome # "ok" \/ ~DistinctAddrs(ev.planes) THEN pre ELSE AsMap(ev.planes)
               IN /\ pre' = post /\ UNCHANGED <<rx, range, now, frac>>
                  /\ heard' = [a \in DOMAIN post \cap DOMAIN heard |-> heard[a]] @@ [a \in DOMAIN post \ DOMAIN heard |-> Stamp]
          [] OTHER -> UNCHANGED <<pre, rx, range, now, frac, heard>>

Spec == Init /\ [][Consume]_vars
Accepted == IF TLCGet("stats").diameter = Len(Rec) + 1 THEN TRUE
            ELSE PrintT(<<"TRACE-NOT-CONSUMED", TLCGet("stats").diameter, Len(Rec)>>) /\ FALSE
=============================================================================
