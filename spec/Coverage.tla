------------------------------ MODULE Coverage ------------------------------
(***************************************************************************)
(* The radar client's coverage map (beyond the listed properties): a list  *)
(* of cells of 0.01 x 0.01 degrees in which an aircraft has been seen,     *)
(* each with the address last seen there and a counter of how often a      *)
(* *different* aircraft was seen there afterwards (drawn brighter).        *)
(* Every loop iteration folds the currently positioned aircraft, in        *)
(* address order, into the list:                                           *)
(*   - a position whose cell is not in the list appends [cell, 0, addr];   *)
(*   - a position in a known cell whose stored address differs increments  *)
(*     the counter and stores the new address;                             *)
(*   - the same aircraft in the same cell changes nothing.                 *)
(* Cells are kept in the order of their first appearance.                  *)
(***************************************************************************)
EXTENDS Integers, Sequences

AbsV(x) == IF x < 0 THEN -x ELSE x
\* micro-degrees -> hundredths of a degree, rounding half away from zero (f64::round)
Centi(u) == (IF u < 0 THEN -1 ELSE 1) * ((AbsV(u) + 5000) \div 10000)
\* a position right on a rounding tie cannot be judged from its micro-degree rendering
OnTie(u) == AbsV(u) % 10000 \in 4999..5001

FirstAt(cov, la, lo) == IF \E i \in 1..Len(cov) : cov[i].lat = la /\ cov[i].lon = lo
                        THEN CHOOSE i \in 1..Len(cov) : cov[i].lat = la /\ cov[i].lon = lo
                                                       /\ \A j \in 1..(i - 1) : ~(cov[j].lat = la /\ cov[j].lon = lo)
                        ELSE 0
CovOne(cov, p) ==
  LET la == Centi(p.lat)  lo == Centi(p.lon)  i == FirstAt(cov, la, lo) IN
  IF i = 0 THEN Append(cov, [lat |-> la, lon |-> lo, seen |-> 0, icao |-> p.icao])
  ELSE IF cov[i].icao # p.icao THEN [cov EXCEPT ![i].seen = @ + 1, ![i].icao = p.icao]
  ELSE cov
RECURSIVE Populate(_, _)
Populate(cov, ps) == IF ps = <<>> THEN cov ELSE Populate(CovOne(cov, Head(ps)), Tail(ps))

\* properties of the fold itself
Idempotent(cov, ps) == Populate(Populate(cov, ps), ps) = Populate(cov, ps) \/ Len(ps) > 1
A == [icao |-> "a", lat |-> 52123456, lon |-> 4005000 + 4000]
B == [icao |-> "b", lat |-> 52120001, lon |-> 4011111]
ASSUME Centi(52123456) = 5212 /\ Centi(-125000) = -13 /\ Centi(-124999) = -12 /\ Centi(4999) = 0
ASSUME Populate(<<>>, <<A>>) = <<[lat |-> 5212, lon |-> 401, seen |-> 0, icao |-> "a"]>>
ASSUME Populate(Populate(<<>>, <<A>>), <<A>>) = Populate(<<>>, <<A>>)
ASSUME Populate(<<>>, <<A, B>>) = <<[lat |-> 5212, lon |-> 401, seen |-> 1, icao |-> "b"]>>
ASSUME Populate(Populate(<<>>, <<A, B>>), <<A, B>>)[1].seen = 3          \* two aircraft in one cell keep raising the counter
=============================================================================
