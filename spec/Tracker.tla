------------------------------ MODULE Tracker -------------------------------
(***************************************************************************)
(* The aircraft tracker (rsadsb_common::Airplanes) as a sequential state   *)
(* machine over a history of frames, a clock and expiry calls.             *)
(*                                                                         *)
(* This module is the single source of the tracking rules (Level A).  The  *)
(* geometry is passed in as operators, so that the same rules are model    *)
(* checked over abstract places (MC_Tracker) and used to judge recorded    *)
(* executions over real CPR values and great-circle distances              *)
(* (Trace_Tracker).                                                        *)
(*                                                                         *)
(* A record holds what the properties C12-C15 speak about:                 *)
(*   n      message count since the address was (re)added                  *)
(*   cs     callsign of the latest identification report                   *)
(*   vel    derived velocity of the latest report that carried one         *)
(*   even, odd  the stored position reports                                *)
(*   pos, dist  the published position and its distance from the receiver  *)
(*   track  the superseded publications, oldest first                      *)
(***************************************************************************)
EXTENDS Integers, Sequences, TLC

NoCS   == [some |-> 0, s |-> <<>>]
NoVel  == [some |-> 0, h |-> 0, g |-> 0, v |-> 0]
NoRep  == [some |-> 0, lat |-> 0, lon |-> 0, alt |-> -1]
NoPos  == [some |-> 0, lat |-> 0, lon |-> 0]
NoDist == [some |-> 0, m |-> 0]
Fresh  == [n |-> 0, cs |-> NoCS, vel |-> NoVel, even |-> NoRep, odd |-> NoRep, pos |-> NoPos, dist |-> NoDist, track |-> <<>>]

\* A frame as the tracker sees it:
\*   [kind |-> "ident" | "vel" | "pos" | "es" | "none", addr, cs, vel, par, rep]
\* "es" is an extended squitter / TIS-B / ADS-R frame with any other payload, "none" any other downlink format.
Tracks(f) == f.kind # "none"

\* Position update of one record.  Cand(e, o) is the CPR pairing of the stored even and odd report
\* ([some |-> 0] when they cannot stem from one location), DistTo(c) the distance of a candidate
\* from the receiver, InRange(c) / JumpOK(p, c) the two plausibility tests.
PosUpd(r, par, rep, Cand(_, _), DistTo(_), InRange(_), JumpOK(_, _)) ==
  LET t == IF par = 0 THEN [r EXCEPT !.even = rep] ELSE [r EXCEPT !.odd = rep]
  IN IF t.even.some = 0 \/ t.odd.some = 0 THEN t                       \* nothing to pair yet
     ELSE LET c == Cand(t.even, t.odd)
          IN IF c.some = 1 /\ InRange(c) /\ (r.pos.some = 0 \/ JumpOK(r.pos, c))
             THEN [t EXCEPT !.pos = c, !.dist = DistTo(c),
                            !.track = IF r.pos.some = 1 THEN Append(r.track, r.pos) ELSE r.track]
             ELSE [r EXCEPT !.even = NoRep, !.odd = NoRep, !.pos = NoPos, !.dist = NoDist]   \* stale data is never paired again

Touch(planes, a) == IF a \in DOMAIN planes THEN planes
                    ELSE [x \in DOMAIN planes \cup {a} |-> IF x = a THEN Fresh ELSE planes[x]]

FrameStep(planes, f, Cand(_, _), DistTo(_), InRange(_), JumpOK(_, _)) ==
  IF ~Tracks(f) THEN planes
  ELSE LET p1 == Touch(planes, f.addr)
           r  == p1[f.addr]
           r2 == CASE f.kind = "ident" -> [r EXCEPT !.cs = f.cs]
                   [] f.kind = "vel"   -> IF f.vel.some = 1 THEN [r EXCEPT !.vel = f.vel] ELSE r
                   [] f.kind = "pos"   -> PosUpd(r, f.par, f.rep, Cand, DistTo, InRange, JumpOK)
                   [] OTHER            -> r
       IN [p1 EXCEPT ![f.addr] = [r2 EXCEPT !.n = r.n + 1]]

Added(planes, f) == Tracks(f) /\ f.addr \notin DOMAIN planes

\* expiry: exactly the aircraft not heard from for T or more seconds go, the rest is untouched
Restrict(fn, S) == [x \in S |-> fn[x]]
Kept(planes, heard, now, T) == {a \in DOMAIN planes : now - heard[a] < T}
PruneStep(planes, heard, now, T) == Restrict(planes, Kept(planes, heard, now, T))

\* derived views
Details(r) == r.pos.some = 1 /\ r.dist.some = 1
AltOptions(r) == {x.alt : x \in {y \in {r.even, r.odd} : y.some = 1 /\ y.alt >= 0}}
=============================================================================
