SPECIFICATION Spec
INVARIANT RoundTripOK
CHECK_DEADLOCK FALSE
