------------------------------- MODULE MC_Crc -------------------------------
(***************************************************************************)
(* Step D for C03: properties of the Mode S parity code itself, checked on *)
(* the specification (Crc.tla).                                            *)
(*  - Linearity: the remainder of a sum is the sum of the remainders, so a *)
(*    corrupted valid squitter has the syndrome of its error pattern.      *)
(*  - No error pattern of weight 1..5 in a 112-bit frame has syndrome 0:   *)
(*    with s(i) the syndrome of the single-bit error at bit i, no XOR of   *)
(*    at most three syndromes equals an XOR of at most two others          *)
(*    (meet in the middle).  States = index sets of size <= 3.             *)
(*  - Bursts: G has degree 24 and a non-zero constant term, so a burst of  *)
(*    length <= 24 (a polynomial of degree < 24 times x^k) is not a        *)
(*    multiple of G; bursts of length <= BurstLen are also checked         *)
(*    directly at every offset.                                            *)
(***************************************************************************)
EXTENDS Crc, FiniteSets, TLC

NBits == 112
BurstLen == 10

Unit(i) == [k \in 1..NBits |-> IF k = i THEN 1 ELSE 0]
Syn == [i \in 1..NBits |-> Rem(Unit(i))]

RECURSIVE XorSet(_)
XorSet(S) == IF S = {} THEN 0 ELSE LET i == CHOOSE i \in S : TRUE IN Syn[i] ^^ XorSet(S \ {i})

\* XORs of one or two syndromes, tagged with the smallest index involved
Small == {<<Syn[i], i>> : i \in 1..NBits} \cup {<<Syn[i] ^^ Syn[j], i>> : i \in 1..NBits, j \in 2..NBits}

VARIABLE A
Init == A = {}
Next == \E i \in 1..NBits : (\A j \in A : j < i) /\ Cardinality(A) < 3 /\ A' = A \cup {i}
Spec == Init /\ [][Next]_A

MaxOf(S) == CHOOSE m \in S : \A k \in S : k <= m
\* an error pattern of weight <= 5 is A (its three smallest positions, or all of them) plus at most two larger ones
NoUndetectedUpTo5 ==
  A # {} => LET v == XorSet(A) IN
            /\ v # 0
            /\ \A m \in (MaxOf(A) + 1)..NBits : <<v, m>> \notin Small

\* linearity on sampled sequences, and the algebraic facts behind burst detection
Bitsy(n, w) == [k \in 1..w |-> (n \div 2^(w - k)) % 2]
XorSeq(a, b) == [k \in 1..Len(a) |-> (a[k] + b[k]) % 2]
ASSUME \A x \in {1, 7, 255, 4097, 65535, 1048575}, y \in {3, 1000, 33333, 999999} :
          Rem(XorSeq(Bitsy(x, 30), Bitsy(y, 30))) = Rem(Bitsy(x, 30)) ^^ Rem(Bitsy(y, 30))
ASSUME GLow % 2 = 1 /\ GLow < P24                         \* constant term 1, degree 24
\* all bursts of length <= BurstLen at every offset of a 112-bit frame: syndrome non-zero
BurstSyn(pat, len, off) == Rem([k \in 1..NBits |-> IF k > off /\ k <= off + len THEN (pat \div 2^(off + len - k)) % 2 ELSE 0])
ASSUME \A len \in 1..BurstLen : \A off \in 0..(NBits - len) :
          \A pat \in {p \in (2^(len - 1))..(2^len - 1) : p % 2 = 1 \/ len = 1} : BurstSyn(pat, len, off) # 0
=============================================================================
