---------------------------- MODULE Trace_Screen ----------------------------
(***************************************************************************)
(* Trace specification for what radar shows (C18).  A `screen` event is    *)
(* the screen reconstructed by the terminal model at a frame marker,       *)
(* together with the hook's draw event of that frame (view state and the   *)
(* tracker's per-aircraft data); `action` events carry the tracker's       *)
(* Added result.  Judged here:                                             *)
(*  - tab title and table title count the tracked aircraft;                *)
(*  - each Airplanes row shows address, callsign, latitude, longitude,     *)
(*    altitude, distance (blank until a position is known), message count; *)
(*  - Stats: total = number of Added = Yes, most = largest tracked set     *)
(*    observed after a frame;                                              *)
(*  - Map: labels lie east -> right / north -> above the centre, at the    *)
(*    column the linear longitude scale prescribes (+-1);                  *)
(*  - named places (--locations, --airports) on Map and Coverage likewise; *)
(*  - view actions leave the data unchanged.                               *)
(***************************************************************************)
EXTENDS Integers, Sequences, FiniteSets, Json, IOUtils, TLC, Geo, Coverage

Rec == ndJsonDeserialize(IOEnv.TRACE)
VARIABLES l, total, most, lastplanes, dirty, cov
vars == <<l, total, most, lastplanes, dirty, cov>>

AbsS(x) == IF x < 0 THEN -x ELSE x
Pad3(n) == IF n < 10 THEN "00" \o ToString(n) ELSE IF n < 100 THEN "0" \o ToString(n) ELSE ToString(n)
\* decimal text with three fractional digits of v / 10^6 (micro-units), as "{:.3}" prints it; a value exactly
\* between two thousandths may go either way (the binary value is not known to that precision)
F3(neg, t) == (IF neg THEN "-" ELSE "") \o ToString(t \div 1000) \o "." \o Pad3(t % 1000)
Fmt3Set(v) == LET a == AbsS(v)  t == (a + 500) \div 1000  neg == v < 0
              IN {F3(neg, t)} \cup (IF a % 1000 \in 499..501 /\ t > 0 THEN {F3(neg, t - 1), F3(neg, t + 1)} ELSE {})
              \cup (IF a % 1000 \in 499..501 /\ t = 0 THEN {F3(neg, 1)} ELSE {})
Trunc(s, n) == IF Len(s) > n THEN SubSeq(s, 1, n) ELSE s
TruncSet(S, n) == {Trunc(s, n) : s \in S}

\* cells: <<icao, callsign, lat, lon, heading, altitude, fpm, speed, distance, msgs>> as shown (stripped)
RowDiff(cells, p) ==
     (IF cells[1] = p.k THEN {} ELSE {"row_address"})
  \cup (IF cells[2] = Trunc(p.cs, 9) THEN {} ELSE {"row_callsign"})
  \cup (IF p.det = 1 THEN (IF cells[3] \in TruncSet(Fmt3Set(p.lat), 7) THEN {} ELSE {"row_latitude"})
                          \cup (IF cells[4] \in TruncSet(Fmt3Set(p.lon), 7) THEN {} ELSE {"row_longitude"})
                          \cup (IF cells[6] = ToString(p.alt) THEN {} ELSE {"row_altitude"})
                          \cup (IF cells[9] \in Fmt3Set(p.distmm) THEN {} ELSE {"row_distance"})
        ELSE IF cells[3] = "" /\ cells[4] = "" /\ cells[6] = "" /\ cells[9] = "" THEN {} ELSE {"row_not_blank"})
  \cup (IF cells[10] = ToString(p.n) THEN {} ELSE {"row_messages"})

\* the three columns the property does not name (heading, vertical speed, speed): compared all the same, owner "I" -
\* a disagreement is drift between this description and the program, not a verdict on C18
F1(t) == ToString(t \div 10) \o "." \o ToString(t % 10)
RowDrift(cells, p) ==
     (IF (p.hdg10 < 0 /\ cells[5] = "") \/ (p.hdg10 >= 0 /\ cells[5] \in {F1(p.hdg10), F1(p.hdg10 + 1)} \cup (IF p.hdg10 > 0 THEN {F1(p.hdg10 - 1)} ELSE {}))
      THEN {} ELSE {"row_heading"})
  \cup (IF (p.vr = -99999 /\ cells[7] = "") \/ (p.vr # -99999 /\ cells[7] = ToString(p.vr)) THEN {} ELSE {"row_vertical_speed"})
  \cup (IF (p.spd < 0 /\ cells[8] = "") \/ (p.spd >= 0 /\ cells[8] \in {ToString(p.spd), ToString(p.spd + 1)} \cup (IF p.spd > 0 THEN {ToString(p.spd - 1)} ELSE {}))
      THEN {} ELSE {"row_speed"})
TableDrift(ev) ==
  IF Len(ev.cells) # Len(ev.planes) THEN {}
  ELSE UNION {RowDrift(ev.cells[i], ev.planes[i]) : i \in 1..Len(ev.planes)}

\* more rows than fit: the table shows the window that keeps the selection in view, starting as early as possible (its
\* scroll offset is recomputed from nothing at every draw)
WindowDiff(ev) ==
  LET vis == ev.h - 9
      k == IF ev.sel < vis THEN 0 ELSE ev.sel - vis + 1
  IN IF Len(ev.cells) # vis \/ k + vis > Len(ev.planes) THEN {"row_window"}
     ELSE UNION {RowDiff(ev.cells[i], ev.planes[k + i]) : i \in 1..vis}

TableDiff(ev) ==
  IF Len(ev.cells) # Len(ev.planes) THEN {"row_count"}
  ELSE UNION {RowDiff(ev.cells[i], ev.planes[i]) : i \in 1..Len(ev.planes)}

\* Map: canvas x of a longitude difference (micro-degrees) at zoom scale9: x = dlon * scale * 500000 / 360
CanvasX(dlon, scale9) == LET s == IF dlon < 0 THEN -1 ELSE 1
                         IN s * (((((AbsS(dlon) \div 1000) * (scale9 \div 1000)) \div 1000) * 1389) \div 1000000)
LabelCol(x, cw) == ((x + 400) * (cw - 1)) \div 800 + 2
\* canvas y of a latitude difference: Mercator, linearised at the middle latitude (dy = dlat / cos(lat)); good to a
\* fraction of a row for differences of a degree or two
CanvasY(dlat, midlat, scale9) == LET c14 == Cos4(midlat \div 100) \div 16384            \* cos in units of 2^-14
                                 IN IF c14 <= 0 THEN 0 ELSE (CanvasX(dlat, scale9) * 16384) \div c14
LabelRow(y, ch) == ((400 - (y + 20)) * (ch - 1)) \div 800 + 5
MapDiff(ev) ==
  LET clat == IF ev.clat = <<>> THEN ev.lat ELSE ev.clat[1]
      clon == IF ev.clong = <<>> THEN ev.long ELSE ev.clong[1]
      cw == ev.w - 4  ch == ev.h - 7
      yc == 5 + (ch - 1) \div 2
      Lab(k) == CHOOSE m \in {ev.labels[i] : i \in 1..Len(ev.labels)} : m.k = k
      Has(k) == \E i \in 1..Len(ev.labels) : ev.labels[i].k = k
      One(p) == LET x == CanvasX(p.lon - clon, ev.scale9)
                    dlat == p.lat - clat
                    \* one row of the canvas and the label's fixed offset of 20 units, in micro-degrees of latitude (linear approximation, generous)
                    \* (canvas units per degree = scale9/1000 * 1389 / 1000; the margin is (units / units-per-degree) degrees)
                    marg == (((20 + 800 \div ch + 15) * 1000000) \div ((((ev.scale9 \div 1000) * 1389) \div 1000) + 1)) * 1000 + 100000
                    y == CanvasY(dlat, (p.lat + clat) \div 2, ev.scale9)
                    \* the aircraft's own dot (blue): anything in view is drawn - near where the scale puts it (the latitude scale is
                    \* linearised: judged only within two degrees of the centre and away from the poles, +-2 cells)
                    dotcol == LabelCol(x, cw)  dotrow == ((400 - y) * (ch - 1)) \div 800 + 5
                    dot == IF p.det = 1 /\ "blue" \in DOMAIN ev /\ "text" \in DOMAIN ev /\ AbsS(x) <= 390 /\ AbsS(y) <= 390 /\ AbsS(clat) <= 70000000 /\ AbsS(dlat) <= 2000000
                              /\ ~(\E i \in 1..Len(ev.blue) : AbsS(ev.blue[i][1] - dotcol) <= 2 /\ AbsS(ev.blue[i][2] - dotrow) <= 2)
                              \* (a label printed over the place hides the dot: then nothing can be said)
                              /\ ~(\E j \in 1..Len(ev.text) : AbsS(ev.text[j][1] - dotcol) <= 2 /\ AbsS(ev.text[j][2] - dotrow) <= 2)
                           THEN {"map_aircraft_missing"} ELSE {}
                IN dot \cup
                   IF ~Has(p.k) \/ p.det = 0 \/ AbsS(x) > 330 THEN {}
                   ELSE (IF AbsS(Lab(p.k).col - LabelCol(x, cw)) <= 1 THEN {} ELSE {"map_column"})
                        \cup (IF AbsS(y) > 330 \/ AbsS(clat) > 70000000 \/ AbsS(Lab(p.k).row - LabelRow(y, ch)) <= 2 THEN {} ELSE {"map_row"})
                        \cup (IF dlat > 20000 /\ Lab(p.k).row > yc THEN {"map_north_above"} ELSE {})
                        \cup (IF dlat < -marg /\ Lab(p.k).row < yc THEN {"map_south_below"} ELSE {})
  IN IF cw < 20 \/ ch < 5 THEN {} ELSE UNION {One(ev.planes[i]) : i \in 1..Len(ev.planes)}

\* Named places (`--locations`, `--airports`) are drawn by the Map and the Coverage tab alike: the name is printed where the
\* place is - east of the centre to its right, north of it above, at the column the longitude scale prescribes (+-1) and the
\* row the (linearised) latitude scale prescribes (+-2); a place in view whose name is nowhere, with nothing printed over the
\* spot, is missing; a place beyond the edge is not drawn
PlaceDiff(ev) ==
  LET clat == IF ev.clat = <<>> THEN ev.lat ELSE ev.clat[1]
      clon == IF ev.clong = <<>> THEN ev.long ELSE ev.clong[1]
      cw == ev.w - 4  ch == ev.h - 7
      yc == 5 + (ch - 1) \div 2
      xc == LabelCol(0, cw)
      Lab(n) == CHOOSE m \in {ev.plabels[i] : i \in 1..Len(ev.plabels)} : m.name = n
      Has(n) == \E i \in 1..Len(ev.plabels) : ev.plabels[i].name = n
      One(p) == LET x == CanvasX(p.lon - clon, ev.scale9)
                    dlat == p.lat - clat
                    y == CanvasY(dlat, (p.lat + clat) \div 2, ev.scale9)
                    col == LabelCol(x, cw)
                    row == ((400 - y) * (ch - 1)) \div 800 + 5
                    judged == AbsS(clat) <= 70000000 /\ AbsS(dlat) <= 2500000
                    inview == AbsS(x) <= 330 /\ AbsS(y) <= 330 /\ col + 5 <= cw
                IN IF ~judged THEN {}
                   ELSE IF ~Has(p.name)
                   THEN (IF inview /\ ~(\E j \in 1..Len(ev.text) : ev.text[j][1] >= col - 2 /\ ev.text[j][1] <= col + 6 /\ AbsS(ev.text[j][2] - row) <= 2)
                         THEN {"map_place_missing"} ELSE {})
                   ELSE (IF AbsS(x) > 460 THEN {"map_place_out_of_view"} ELSE {})
                        \cup (IF inview /\ AbsS(Lab(p.name).col - col) > 1 THEN {"map_place_column"} ELSE {})
                        \cup (IF inview /\ AbsS(Lab(p.name).row - row) > 2 THEN {"map_place_row"} ELSE {})
                        \cup (IF (p.lon - clon > 20000 /\ Lab(p.name).col < xc) \/ (p.lon - clon < -20000 /\ Lab(p.name).col > xc) THEN {"map_place_east_right"} ELSE {})
                        \cup (IF (dlat > 20000 /\ Lab(p.name).row > yc) \/ (dlat < -20000 /\ Lab(p.name).row < yc) THEN {"map_place_north_above"} ELSE {})
  IN IF "places" \notin DOMAIN ev \/ cw < 20 \/ ch < 5 THEN {} ELSE UNION {One(ev.places[i]) : i \in 1..Len(ev.places)}

\* the data is the tracker's and the tracker's distances are measured from the *receiver*, wherever the view is centred
DataDiff(ev) ==
  LET rcv == [lat |-> ev.lat, lon |-> ev.long]
      bad == {i \in 1..Len(ev.planes) : ev.planes[i].det = 1 /\ ev.planes[i].distmm < 1900000000
                 /\ ~DistOK(ev.planes[i].distmm \div 1000, rcv, [lat |-> ev.planes[i].lat, lon |-> ev.planes[i].lon], 10)}
  IN IF bad = {} THEN {} ELSE {"distance_not_from_receiver"}

ScreenDiff(ev) ==
     (IF ev.title_count = Len(ev.planes) THEN {} ELSE {"title_count"})
  \cup (IF ev.tab = 2 /\ ev.box_count # Len(ev.planes) THEN {"table_title_count"} ELSE {})
  \cup (IF ev.tab = 2 /\ ev.cells_valid = 1 THEN TableDiff(ev) ELSE {})
  \cup (IF ev.tab = 2 /\ ev.cells_valid = 2 THEN WindowDiff(ev) ELSE {})
  \cup (IF ev.tab = 3 /\ ev.stats_valid = 1
        THEN (IF ev.stats_total = total THEN {} ELSE {"stats_total"}) \cup (IF ev.stats_most = most THEN {} ELSE {"stats_most"})
        ELSE {})
  \cup (IF ev.tab = 0 THEN MapDiff(ev) ELSE {})
  \cup (IF ev.tab \in {0, 1} THEN PlaceDiff(ev) ELSE {})
  \cup DataDiff(ev)
  \cup (IF ~dirty /\ lastplanes # <<>> /\ ev.planes # lastplanes[1] THEN {"view_changed_data"} ELSE {})

\* the coverage fold (not a listed property: a disagreement is reported as model drift, not as a verdict)
CoverageDrift(ev) ==
  /\ ev.ev = "coverage"
  /\ \A i \in 1..Len(ev.positions) : ~OnTie(ev.positions[i].lat) /\ ~OnTie(ev.positions[i].lon)
  /\ ev.cov # Populate(cov, ev.positions)

Judge(ev) == LET d == IF ev.ev = "screen" THEN ScreenDiff(ev) ELSE {}
                 dr == IF ev.ev = "screen" /\ ev.tab = 2 /\ ev.cells_valid = 1 THEN TableDrift(ev) ELSE {} IN
             /\ (IF d \cup dr = {} THEN TRUE
                 ELSE PrintT(<<"VERDICT", l, "screen|tab=" \o ToString(ev.tab), {<<"C18", f>> : f \in d} \cup {<<"I", f>> : f \in dr}>>))
             /\ (IF CoverageDrift(ev) THEN PrintT(<<"INFO", "MODEL-DRIFT", l, "coverage">>) ELSE TRUE)

Init == l = 1 /\ total = 0 /\ most = 0 /\ lastplanes = <<>> /\ dirty = TRUE /\ cov = <<>>
Consume ==
  /\ l <= Len(Rec)
  /\ LET ev == Rec[l] IN
     /\ Judge(ev) /\ l' = l + 1
     /\ cov' = IF ev.ev = "session_start" THEN <<>> ELSE IF ev.ev = "coverage" THEN ev.cov ELSE cov
     /\ CASE ev.ev = "session_start" -> total' = 0 /\ most' = 0 /\ lastplanes' = <<>> /\ dirty' = TRUE
          [] ev.ev = "action" -> /\ total' = total + ev.added
                                 /\ most' = IF Len(ev.keys) > most THEN Len(ev.keys) ELSE most
                                 /\ dirty' = TRUE /\ UNCHANGED lastplanes
          [] ev.ev = "expiry_possible" -> dirty' = TRUE /\ UNCHANGED <<total, most, lastplanes>>
          [] ev.ev = "screen" -> lastplanes' = <<ev.planes>> /\ dirty' = FALSE /\ UNCHANGED <<total, most>>
          [] OTHER -> UNCHANGED <<total, most, lastplanes, dirty>>
Spec == Init /\ [][Consume]_vars
Accepted == IF TLCGet("stats").diameter = Len(Rec) + 1 THEN TRUE
            ELSE PrintT(<<"TRACE-NOT-CONSUMED", TLCGet("stats").diameter, Len(Rec)>>) /\ FALSE
=============================================================================
