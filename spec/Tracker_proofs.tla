--------------------------- MODULE Tracker_proofs ---------------------------
(* TLAPS: the structural tracking rules of Tracker.tla hold for ANY table of aircraft (any number of addresses), any  *)
(* frame and any geometry (the pairing / distance / plausibility operators are arbitrary) - the unbounded counterpart *)
(* of MC_Tracker's OtherFormatsChangeNothing, OnlyExpiryShrinks / AddedIffNew (the table grows by exactly the frame's *)
(* address), Isolation (no other record changes) and PruneRemovesExactly, which TLC checks for two addresses.         *)
EXTENDS Tracker, TLAPS

LEMMA TouchDom == ASSUME NEW planes, NEW a PROVE DOMAIN Touch(planes, a) = DOMAIN planes \cup {a}
  BY DEF Touch
LEMMA TouchOther == ASSUME NEW planes, NEW a, NEW b \in DOMAIN planes PROVE Touch(planes, a)[b] = planes[b]
  BY DEF Touch

THEOREM OtherFormats ==
  ASSUME NEW planes, NEW f, NEW Cand(_, _), NEW DistTo(_), NEW InRange(_), NEW JumpOK(_, _), ~Tracks(f)
  PROVE FrameStep(planes, f, Cand, DistTo, InRange, JumpOK) = planes
  BY DEF FrameStep

THEOREM GrowsByTheAddress ==
  ASSUME NEW planes, NEW f, NEW Cand(_, _), NEW DistTo(_), NEW InRange(_), NEW JumpOK(_, _), Tracks(f)
  PROVE DOMAIN FrameStep(planes, f, Cand, DistTo, InRange, JumpOK) = DOMAIN planes \cup {f.addr}
  BY TouchDom DEF FrameStep

THEOREM Isolated ==
  ASSUME NEW planes, NEW f, NEW Cand(_, _), NEW DistTo(_), NEW InRange(_), NEW JumpOK(_, _),
         NEW b \in DOMAIN planes, Tracks(f) => b # f.addr
  PROVE FrameStep(planes, f, Cand, DistTo, InRange, JumpOK)[b] = planes[b]
  <1>1. CASE ~Tracks(f)
    BY <1>1 DEF FrameStep
  <1>2. CASE Tracks(f)
    <2>1. b \in DOMAIN Touch(planes, f.addr) /\ Touch(planes, f.addr)[b] = planes[b]
      BY TouchDom, TouchOther
    <2> QED
      BY <1>2, <2>1 DEF FrameStep
  <1> QED
    BY <1>1, <1>2

THEOREM PruneExactly ==
  ASSUME NEW planes, NEW heard, NEW now, NEW T
  PROVE /\ DOMAIN PruneStep(planes, heard, now, T) = Kept(planes, heard, now, T)
        /\ Kept(planes, heard, now, T) \subseteq DOMAIN planes
        /\ \A a \in Kept(planes, heard, now, T) : PruneStep(planes, heard, now, T)[a] = planes[a]
  BY DEF PruneStep, Restrict, Kept

\* added exactly when the address was not tracked, and the table only ever shrinks through expiry
THEOREM AddedIffNewAddress ==
  ASSUME NEW planes, NEW f, NEW Cand(_, _), NEW DistTo(_), NEW InRange(_), NEW JumpOK(_, _)
  PROVE /\ DOMAIN planes \subseteq DOMAIN FrameStep(planes, f, Cand, DistTo, InRange, JumpOK)
        /\ Added(planes, f) <=> DOMAIN FrameStep(planes, f, Cand, DistTo, InRange, JumpOK) # DOMAIN planes
  <1>1. CASE ~Tracks(f)
    BY <1>1, OtherFormats DEF Added
  <1>2. CASE Tracks(f)
    <2>1. DOMAIN FrameStep(planes, f, Cand, DistTo, InRange, JumpOK) = DOMAIN planes \cup {f.addr}
      BY <1>2, GrowsByTheAddress
    <2>2. (f.addr \notin DOMAIN planes) <=> (DOMAIN planes \cup {f.addr} # DOMAIN planes)
      OBVIOUS
    <2> QED
      BY <1>2, <2>1, <2>2 DEF Added
  <1> QED
    BY <1>1, <1>2
=============================================================================
