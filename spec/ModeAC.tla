------------------------------- MODULE ModeAC -------------------------------
(***************************************************************************)
(* Mode A/C 13-bit fields (Annex 10 vol IV 3.1.2.6.5.4 / 3.1.1.7.12.2.3).  *)
(* Bit order of the field, first transmitted bit first:                    *)
(*     C1 A1 C2 A2 C4 A4 X B1 D1 B2 D2 B4 D4         (index 1..13)         *)
(* In an altitude code X is the M bit and D1 the Q bit.                    *)
(***************************************************************************)
EXTENDS Integers, Sequences

Bit(code, i) == (code \div (2^(13 - i))) % 2
C1(c) == Bit(c, 1)   A1(c) == Bit(c, 2)   C2(c) == Bit(c, 3)   A2(c) == Bit(c, 4)
C4(c) == Bit(c, 5)   A4(c) == Bit(c, 6)   X(c)  == Bit(c, 7)   B1(c) == Bit(c, 8)
D1(c) == Bit(c, 9)   B2(c) == Bit(c, 10)  D2(c) == Bit(c, 11)  B4(c) == Bit(c, 12)  D4(c) == Bit(c, 13)

DigA(c) == 4 * A4(c) + 2 * A2(c) + A1(c)
DigB(c) == 4 * B4(c) + 2 * B2(c) + B1(c)
DigC(c) == 4 * C4(c) + 2 * C2(c) + C1(c)
DigD(c) == 4 * D4(c) + 2 * D2(c) + D1(c)

\* identity (squawk): four octal digits A B C D presented as four hex-coded digits
Identity(c) == 4096 * DigA(c) + 256 * DigB(c) + 16 * DigC(c) + DigD(c)

\* Gillham altitude.  The 500-ft count is the 8-bit reflected Gray number D2 D4 A1 A2 A4 B1 B2 B4,
\* the 100-ft step the reflected 5-cycle C1 C2 C4 = 001, 011, 010, 110, 100 (steps 1..5), read
\* backwards in odd 500-ft rows; altitude = 500*N500 + 100*N100 - 1300 ft.
RECURSIVE GrayAcc(_, _, _, _)
GrayAcc(g, i, prev, acc) == IF i > Len(g) THEN acc
                            ELSE LET b == (prev + g[i]) % 2 IN GrayAcc(g, i + 1, b, 2 * acc + b)
GrayToBin(g) == GrayAcc(g, 1, 0, 0)
N500(c)  == GrayToBin(<<D2(c), D4(c), A1(c), A2(c), A4(c), B1(c), B2(c), B4(c)>>)
CCode(c) == 4 * C1(c) + 2 * C2(c) + C4(c)
CStep(cc) == CASE cc = 1 -> 1 [] cc = 3 -> 2 [] cc = 2 -> 3 [] cc = 6 -> 4 [] cc = 4 -> 5 [] OTHER -> 0
Illegal == -99999
Gillham(c) == IF D1(c) = 1 \/ CStep(CCode(c)) = 0 THEN Illegal
              ELSE LET n5 == N500(c)
                       s  == CStep(CCode(c))
                       n1 == IF n5 % 2 = 1 THEN 6 - s ELSE s
                   IN 500 * n5 + 100 * n1 - 1300

\* Q-bit altitude: the 11 bits other than M and Q, 25 ft steps
QN(c) == 1024 * C1(c) + 512 * A1(c) + 256 * C2(c) + 128 * A2(c) + 64 * C4(c) + 32 * A4(c)
         + 16 * B1(c) + 8 * B2(c) + 4 * D2(c) + 2 * B4(c) + D4(c)

\* altitude in feet of a 13-bit altitude code, or NoAlt
NoAlt == -1
AltFeet(c) == IF c = 0 \/ X(c) = 1 THEN NoAlt
              ELSE IF D1(c) = 1 THEN 25 * QN(c) - 1000
              ELSE LET g == Gillham(c) IN IF g = Illegal THEN NoAlt ELSE g

\* 13-bit reader (DF0, 4, 16, 20): result type is an unsigned 16-bit number, 0 = no altitude
AC13(c) == LET ft == AltFeet(c) IN IF ft # NoAlt /\ ft > 0 /\ ft <= 65535 THEN ft ELSE 0

\* 12-bit field of airborne position reports: the 13-bit code with the M bit removed
Insert12(c12) == 128 * (c12 \div 64) + (c12 % 64)          \* M = 0 re-inserted
AC12(c12) == AC13(Insert12(c12))                            \* 0 = no altitude

ASSUME Identity(0) = 0 /\ Identity(4461) = 854          \* 2A00516D492B80 carries squawk 0356 (mode-s.org)
ASSUME AltFeet(Insert12(3128)) = 38000                   \* 0xc38: Q-bit example (mode-s.org)
ASSUME Gillham(256) = -1200 /\ Gillham(1024) = -1000     \* C4 alone is the lowest code, C2 alone -1000 ft
ASSUME Gillham(260) = 126700                             \* D2 + C4 is the highest code
ASSUME AC13(0) = 0 /\ AC13(8191) = 0 /\ AC13(260) = 0 /\ AC13(1024) = 0
=============================================================================
