------------------------------- MODULE MC_Feed ------------------------------
(* Bounded instance of Feed: a feed of a few lines of the kinds V (a frame, 5 bytes), S (`;` + newline, 2 bytes) and *)
(* E (a bare newline), every segmentation, every assignment of short / long gaps.  Each complete schedule is      *)
(* printed as a REPLAY line; the feed is named by the environment variable FEED (e.g. "VSV").                       *)
EXTENDS Feed, IOUtils, TLC

KindLen(c) == CASE c = "V" -> 5 [] c = "S" -> 2 [] OTHER -> 1
RECURSIVE Build(_, _, _)
Build(kinds, i, acc) ==
  IF i > Len(kinds) THEN acc
  ELSE LET n == KindLen(SubSeq(kinds, i, i))
           base == 10 * (i - 1)
       IN Build(kinds, i + 1, acc \o [j \in 1..n |-> IF j = n THEN base + 10 ELSE base + j])
MCStream == Build(IOEnv.FEED, 1, <<>>)
MCKeep == IOEnv.KEEP = "1"
MCGuard == IOEnv.GUARD = "1"
MCMaxSegs == atoi(IOEnv.MAXSEGS)

Replay == (Quiescent \/ crashed) => PrintT(<<"REPLAY", sched>>)
=============================================================================
