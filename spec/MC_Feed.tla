------------------------------- MODULE MC_Feed ------------------------------
(* Bounded instance of Feed: a feed of a few lines of the kinds V (a frame, 5 bytes), S (`;` + newline, 2 bytes),   *)
(* E (a bare newline) and U (a frame with a stray byte in front of its last byte), every segmentation, every assignment of short / long gaps.  Each complete schedule is      *)
(* printed as a REPLAY line; the feed is named by the environment variable FEED (e.g. "VSV").                       *)
EXTENDS Feed, IOUtils, TLC

KindLen(c) == CASE c \in {"V", "U"} -> 5 [] c = "S" -> 2 [] OTHER -> 1
RECURSIVE Build(_, _, _)
Build(kinds, i, acc) ==
  IF i > Len(kinds) THEN acc
  ELSE LET n == KindLen(SubSeq(kinds, i, i))
           base == 10 * (i - 1)
           stray == SubSeq(kinds, i, i) = "U"
       IN Build(kinds, i + 1, acc \o [j \in 1..n |-> IF j = n THEN base + 10 ELSE IF stray /\ j = n - 1 THEN base + 9 ELSE base + j])
MCStream == Build(IOEnv.FEED, 1, <<>>)
MCKeep == IOEnv.KEEP = "1"
MCGuard == IOEnv.GUARD = "1"
MCText == IOEnv.TEXTBUF = "1"
MCMaxSegs == atoi(IOEnv.MAXSEGS)

Replay == (Quiescent \/ crashed) => PrintT(<<"REPLAY", sched>>)
=============================================================================
