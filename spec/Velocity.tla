------------------------------ MODULE Velocity ------------------------------
(***************************************************************************)
(* Derived airborne velocity (type 19, subtypes 1 and 2), DO-260B          *)
(* 2.2.3.2.6: components (raw-1) kt (x4 supersonic) signed by their        *)
(* direction bits, ground speed their Euclidean norm, track                *)
(* atan2(east, north) in [0, 360), vertical rate (raw-1)*64 ft/min.        *)
(* Raw 0 in a velocity or the vertical-rate field means "no information":  *)
(* no derived velocity.                                                    *)
(* The track and speed are checked in the verification direction (no       *)
(* inverse functions): see HeadingOK / SpeedOK.                            *)
(***************************************************************************)
EXTENDS Bits, Trig

\* o: offset of the first ME bit
VelRaw(b, o) == [st |-> Field(b, o + 5, 3), dew |-> Field(b, o + 13, 1), vew |-> Field(b, o + 14, 10),
                 dns |-> Field(b, o + 24, 1), vns |-> Field(b, o + 25, 10),
                 vrsign |-> Field(b, o + 36, 1), vr |-> Field(b, o + 37, 9)]

HasDerived(r) == r.st \in {1, 2} /\ r.vew # 0 /\ r.vns # 0 /\ r.vr # 0
Scale(r) == IF r.st = 2 THEN 4 ELSE 1
East(r)  == (r.vew - 1) * Scale(r) * (IF r.dew = 1 THEN -1 ELSE 1)     \* direction bit 1 = towards west
North(r) == (r.vns - 1) * Scale(r) * (IF r.dns = 1 THEN -1 ELSE 1)     \* direction bit 1 = towards south
VRate(r) == (r.vr - 1) * 64 * (IF r.vrsign = 1 THEN -1 ELSE 1)

\* reported track h4 (10^-4 degrees) is atan2(e, n) in [0, 360):
\*   e*cos h - n*sin h = 0   and   e*sin h + n*cos h > 0   (for a non-zero vector)
\* evaluated at 2^-18 resolution; tolerance = trig and quantisation error of the products
HeadingOK(h4, e, n) ==
  /\ h4 >= 0 /\ h4 < Full4
  /\ IF e = 0 /\ n = 0 THEN TRUE                              \* direction of the zero vector is not defined
     ELSE LET sc == SinCos4(h4)
              s18 == sc.s \div 1024
              c18 == sc.c \div 1024
              cross == e * c18 - n * s18
              dot   == e * s18 + n * c18
              tol   == 2 * (AbsT(e) + AbsT(n)) + 4 + (AbsT(e) + AbsT(n)) \div 2     \* + 10^-4 degree rounding of h4
          IN AbsT(cross) <= tol /\ dot > 0

\* reported ground speed g (milli-knots) is sqrt(e^2 + n^2): with r = isqrt(S), d = S - r^2 the
\* largest m in 0..999 with (1000 r + m)^2 <= 10^6 S satisfies m (2000 r + m) <= 10^6 d, compared
\* in thousands so that nothing exceeds 2^31
FitsM(m, r, d) == LET A == 2000 * r + m
                      P == m * (A \div 1000)
                      Q == m * (A % 1000)
                  IN P + Q \div 1000 + (IF Q % 1000 > 0 THEN 1 ELSE 0) <= 1000 * d
RECURSIVE MaxM(_, _, _, _)
MaxM(lo, hi, r, d) == IF lo >= hi THEN lo
                      ELSE LET mid == (lo + hi + 1) \div 2
                           IN IF FitsM(mid, r, d) THEN MaxM(mid, hi, r, d) ELSE MaxM(lo, mid - 1, r, d)
SpeedFloorMkt(e, n) == LET S == e * e + n * n  r == Isqrt(S) IN 1000 * r + MaxM(0, 999, r, S - r * r)
SpeedOK(g, e, n) == LET f == SpeedFloorMkt(e, n) IN g >= f - 1 /\ g <= f + 2

\* calc: the recorded result of the library's velocity computation
\*   [some |-> 0/1, hdg4, hneg, gsmkt, vrate]
CalcDiff(calc, b, o) ==
  LET r == VelRaw(b, o) IN
  IF ~HasDerived(r) THEN (IF calc.some = 0 THEN {} ELSE {"csome"})
  ELSE IF calc.some = 0 THEN {"csome"}
  ELSE (IF HeadingOK(calc.hdg4, East(r), North(r)) THEN {} ELSE {"chdg"})
       \* in [0, 360) also for whoever looks at the sign of the value: negative zero prints as "-0"
       \cup (IF calc.hneg = 0 THEN {} ELSE {"chdg_negative"})
       \cup (IF SpeedOK(calc.gsmkt, East(r), North(r)) THEN {} ELSE {"cgs"})
       \cup (IF calc.vrate = VRate(r) THEN {} ELSE {"cvrate"})

ASSUME SpeedFloorMkt(3, 4) = 5000 /\ SpeedFloorMkt(1, 1) = 1414 /\ SpeedFloorMkt(0, 0) = 0
ASSUME HeadingOK(900000, 5, 0) /\ HeadingOK(0, 0, 7) /\ HeadingOK(2700000, -9, 0) /\ HeadingOK(1800000, 0, -3)
ASSUME HeadingOK(450000, 100, 100) /\ ~HeadingOK(2250000, 100, 100) /\ ~HeadingOK(460000, 100, 100)
ASSUME HeadingOK(3150000, -4088, 4088) /\ ~HeadingOK(3149000, -4088, 4088)
=============================================================================
