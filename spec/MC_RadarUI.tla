----------------------------- MODULE MC_RadarUI -----------------------------
(* Bounded instance of RadarUI (Step D for C17 and the view/data separation of C18): an alphabet of keys and     *)
(* mouse events, aircraft arriving (with or without a position) and expiring, bursts of input events between two *)
(* draws.  Invariants: no handler and no draw panics; after a draw the selection is within the rows; input never  *)
(* changes the data.  One behaviour per distinct state is printed as a REPLAY line.                               *)
EXTENDS RadarUI, IOUtils, TLC

MCGuards == IOEnv.GUARDS = "1"
MaxRows == 2
MaxBurst == atoi(IOEnv.MAXBURST)
MaxSteps == atoi(IOEnv.MAXSTEPS)
Touch == IOEnv.TOUCH = "1"
PrintReplay == IOEnv.REPLAY = "1"

KeysA == << "F(1)", "F(2)", "F(3)", "F(4)", "F(5)", "Tab", "Up", "Down", "Left", "Right", "Enter",
            "Char('+')", "Char('-')", "Char('l')", "Char('t')", "Char('x')", "Char('q')" >>
\* mouse alphabet: <<kind, col, row>> on an 80 x 24 terminal
MouseA == << <<"Down(Left)", 25, 2>>, <<"Down(Left)", 4, 2>>, <<"Down(Left)", 5, 6>>, <<"Down(Left)", 5, 12>>, <<"Down(Left)", 5, 20>>,
             <<"Drag(Left)", 30, 10>>, <<"Drag(Left)", 33, 12>>, <<"Up(Left)", 33, 12>>, <<"ScrollUp", 40, 10>>, <<"ScrollDown", 40, 10>> >>
\* touchscreen buttons of an 80 x 24 terminal (three blocks of the 20-row area below the tab bar): <<y, height>>
BtnOn == << <<4, 6>>, <<10, 7>>, <<17, 6>> >>

VARIABLES s, rows, det, phase, burst, hist, steps,
          total, most, adds          \* statistics tab: aircraft ever added, largest simultaneous count; adds = history of arrivals
vars == <<s, rows, det, phase, burst, hist, steps, total, most, adds>>
View == <<s, rows, det, phase, burst, steps, total, most, adds>>

RX == [lat |-> 52000000, lon |-> 4000000]
PosOf(i) == [lat |-> 52100000 + 10000 * i, lon |-> 4200000]
Btn == IF Touch /\ s.tab \in {0, 1} THEN BtnOn ELSE << >>
LeftEdge == IF Touch /\ s.tab \in {0, 1} THEN 11 ELSE 1

Init == /\ s = Init0 /\ rows = 0 /\ det = << >> /\ phase = "draw" /\ burst = 0 /\ hist = << >> /\ steps = 0
        /\ total = 0 /\ most = 0 /\ adds = 0

Alive == ~s.panicked /\ ~s.quit /\ steps < MaxSteps
Step(tag) == /\ steps' = steps + 1 /\ hist' = Append(hist, tag)

Draw == /\ Alive /\ phase = "draw"
        /\ s' = DrawStep(s, rows) /\ phase' = "events" /\ burst' = 0
        /\ Step(<<"draw">>) /\ UNCHANGED <<rows, det, total, most, adds>>
Key(i) == /\ Alive /\ phase = "events" /\ burst < MaxBurst
          /\ s' = KeyStep(s, KeysA[i], FALSE, rows, LAMBDA k : det[k + 1], PosOf, RX)
          /\ burst' = burst + 1 /\ Step(<<"key", KeysA[i]>>) /\ UNCHANGED <<rows, det, phase, total, most, adds>>
Mouse(i) == /\ Alive /\ phase = "events" /\ burst < MaxBurst
            /\ s' = MouseStep(s, MouseA[i][1], MouseA[i][2], MouseA[i][3], Btn, LeftEdge, RX)
            /\ burst' = burst + 1 /\ Step(<<"mouse", MouseA[i][1], MouseA[i][2], MouseA[i][3]>>) /\ UNCHANGED <<rows, det, phase, total, most, adds>>
\* the loop goes round: traffic may arrive / aircraft may expire before the next draw
Loop == /\ Alive /\ phase = "events"
        /\ \/ UNCHANGED <<rows, det, total, most, adds>> /\ Step(<<"loop">>)
           \/ /\ rows < MaxRows /\ \E d \in BOOLEAN : det' = Append(det, d) /\ Step(<<"arrive", IF d THEN 1 ELSE 0>>)
              /\ rows' = rows + 1
              \* Stats::update runs after the frame was handed to the tracker and before expiry
              /\ total' = total + 1 /\ adds' = adds + 1 /\ most' = IF rows + 1 > most THEN rows + 1 ELSE most
           \/ /\ rows > 0 /\ rows' = 0 /\ det' = << >> /\ Step(<<"expire">>) /\ UNCHANGED <<total, most, adds>>
        /\ phase' = "draw" /\ UNCHANGED <<s, burst>>

Next == Draw \/ (\E i \in 1..Len(KeysA) : Key(i)) \/ (\E i \in 1..Len(MouseA) : Mouse(i)) \/ Loop
Spec == Init /\ [][Next]_vars

NoPanic == ~s.panicked
SelectionShown == (phase = "events" /\ burst = 0 /\ s.tab = 2 /\ ~s.panicked) => (s.sel = NoSel \/ s.sel < rows)
\* statistics (C18): the total counts every time an aircraft was newly added, "most" is the largest simultaneous count
StatsOK == total = adds /\ most >= rows /\ most <= total /\ (adds > 0 => most >= 1)
Inv == NoPanic /\ SelectionShown /\ StatsOK
\* view actions never touch the data (C18)
ViewOnly == [][(phase = "events" /\ phase' = "events") => (rows' = rows /\ det' = det /\ total' = total /\ most' = most)]_vars
Replay == (PrintReplay /\ (steps = MaxSteps \/ s.quit \/ s.panicked)) => PrintT(<<"REPLAY", hist>>)
=============================================================================
