----------------------------- MODULE MC_RadarUI -----------------------------
(* Bounded instance of RadarUI (Step D for C17 and the view/data separation of C18): an alphabet of keys and     *)
(* mouse events, aircraft arriving (with or without a position) and expiring, bursts of input events between two *)
(* draws.  Invariants: no handler and no draw panics; after a draw the selection is within the rows; input never  *)
(* changes the data.  One behaviour per distinct state is printed as a REPLAY line.                               *)
EXTENDS RadarLoop, IOUtils, TLC

MCGuards == IOEnv.GUARDS = "1"
MCMaxRows == 2
MCMaxBurst == atoi(IOEnv.MAXBURST)
MCMaxSteps == atoi(IOEnv.MAXSTEPS)
MCTouch == IOEnv.TOUCH = "1"
PrintReplay == IOEnv.REPLAY = "1"

MCKeysA == << "F(1)", "F(2)", "F(3)", "F(4)", "F(5)", "Tab", "Up", "Down", "Left", "Right", "Enter",
            "Char('+')", "Char('-')", "Char('l')", "Char('t')", "Char('x')", "Char('q')" >>
\* mouse alphabet: <<kind, col, row>> on an 80 x 24 terminal
MCMouseA == << <<"Down(Left)", 25, 2>>, <<"Down(Left)", 4, 2>>, <<"Down(Left)", 5, 6>>, <<"Down(Left)", 5, 12>>, <<"Down(Left)", 5, 20>>,
             <<"Drag(Left)", 30, 10>>, <<"Drag(Left)", 33, 12>>, <<"Up(Left)", 33, 12>>, <<"ScrollUp", 40, 10>>, <<"ScrollDown", 40, 10>> >>
\* touchscreen buttons of an 80 x 24 terminal (three blocks of the 20-row area below the tab bar): <<y, height>>
MCBtnOn == << <<4, 6>>, <<10, 7>>, <<17, 6>> >>


SelectionShown == (phase = "events" /\ burst = 0 /\ s.tab = 2 /\ ~s.panicked) => (s.sel = NoSel \/ s.sel < rows)
\* statistics (C18): the total counts every time an aircraft was newly added, "most" is the largest simultaneous count
StatsOK == total = adds /\ most >= rows /\ most <= total /\ (adds > 0 => most >= 1)
Inv == NoPanic /\ SelectionShown /\ StatsOK
\* view actions never touch the data (C18)
ViewOnly == [][(phase = "events" /\ phase' = "events") => (rows' = rows /\ det' = det /\ total' = total /\ most' = most)]_vars
Replay == (PrintReplay /\ (steps = MaxSteps \/ s.quit \/ s.panicked)) => PrintT(<<"REPLAY", hist, "SIGS", sigs>>)
=============================================================================
