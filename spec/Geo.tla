-------------------------------- MODULE Geo ---------------------------------
(***************************************************************************)
(* Great-circle distance on a sphere of radius 6371 km, in the             *)
(* verification direction: a reported distance d between (lat1, lon1) and  *)
(* (lat2, lon2) is right iff                                               *)
(*    sin^2(d / 2R) = sin^2(dlat/2) + cos lat1 cos lat2 sin^2(dlon/2)      *)
(* (haversine identity).  Angles are micro-degrees, distances metres.      *)
(* Products are kept at full precision as pairs <<hi, lo>> = hi*2^28 + lo  *)
(* so that short distances keep their relative accuracy.                   *)
(***************************************************************************)
EXTENDS Trig

HalfPi == 421657428                   \* pi/2 in units of 2^-28
FullUD == 360000000

\* micro-degrees -> fixed radians, 0 <= u <= 180e6      (2^28*pi/180e6 = 4.685082536292)
RadUD(u) == u * 4 + (u \div 1000) * 685 + ((u % 1000) * 685) \div 1000 + ((u \div 10000) * 8254) \div 10000

\* sine of a fixed-radian angle in [0, pi/2]
SinQ(x) == IF 2 * x <= HalfPi THEN SinS(x) ELSE CosS(HalfPi - x)
CosQ(x) == SinQ(HalfPi - x)

\* metres -> half the central angle d/(2R) in fixed radians, 0 <= m <= 20 000 000   (2^28/12742000 = 21.066979752)
HalfAngle(m) == m * 21 + ((m \div 1000) * 66979) \div 1000 + ((m \div 1000) * 752) \div 1000000 + ((m % 1000) * 67) \div 1000

\* full-precision product of two fixed-point numbers in 0..2^28: <<hi, lo>>
MulFull(a, b) == LET a1 == a \div L14  a0 == a % L14  b1 == b \div L14  b0 == b % L14
                     mid == a1 * b0 + a0 * b1
                     loraw == (mid % L14) * L14 + a0 * b0
                 IN << a1 * b1 + mid \div L14 + loraw \div ONE, loraw % ONE >>
PAdd(p, q) == << p[1] + q[1] + (p[2] + q[2]) \div ONE, (p[2] + q[2]) % ONE >>
PLeq(p, q) == p[1] < q[1] \/ (p[1] = q[1] /\ p[2] <= q[2])
PSubAbs(p, q) == LET big == IF PLeq(q, p) THEN p ELSE q
                     sml == IF PLeq(q, p) THEN q ELSE p
                 IN IF big[2] >= sml[2] THEN << big[1] - sml[1], big[2] - sml[2] >>
                    ELSE << big[1] - sml[1] - 1, big[2] + ONE - sml[2] >>

\* right-hand side of the identity for two places [lat, lon] in micro-degrees
DLon(a, b) == LET d == AbsT(a - b) % FullUD IN IF d > FullUD \div 2 THEN FullUD - d ELSE d
HavRHS(p, q) ==
  LET s1 == SinQ(RadUD(AbsT(p.lat - q.lat)) \div 2)
      s2 == SinQ(RadUD(DLon(p.lon, q.lon)) \div 2)
      \* (cos lat1 * s2) * (cos lat2 * s2): each factor rounded once, the product kept exactly
  IN PAdd(MulFull(s1, s1), MulFull(Mul(CosQ(RadUD(AbsT(p.lat))), s2), Mul(CosQ(RadUD(AbsT(q.lat))), s2)))

\* sin^2 of the half angle of a distance in metres
HavOfMetres(m) == LET s == SinQ(HalfAngle(m)) IN MulFull(s, s)

\* reported distance d (metres) equals the great-circle distance within tolM metres
DistOK(d, p, q, tolM) ==
  /\ d >= 0 /\ d <= 20016000                                   \* half the circumference is 20 015 087 m
  /\ LET x == HalfAngle(d)
         s == SinQ(IF x > HalfPi THEN HalfPi ELSE x)
         eps == 22 * tolM + 4                                   \* tolM metres in units of the half angle, plus trig error
         tol == PAdd(MulFull(s, 2 * eps), << 0, eps * eps >>)
     IN PLeq(PSubAbs(MulFull(s, s), HavRHS(p, q)), tol)

\* threshold decisions with a guard band: "surely beyond" / "surely within" limit metres
Beyond(p, q, limit, band) == limit + band < 20000000 /\ ~PLeq(HavRHS(p, q), HavOfMetres(limit + band))   \* limits of 20 000 km or more are never exceeded
Within(p, q, limit, band) == limit >= 20000000 \/ (limit > band /\ PLeq(HavRHS(p, q), HavOfMetres(limit - band)))

O == [lat |-> 0, lon |-> 0]
ASSUME DistOK(111195, O, [lat |-> 0, lon |-> 1000000], 2) /\ ~DistOK(111215, O, [lat |-> 0, lon |-> 1000000], 5)
ASSUME DistOK(111195, O, [lat |-> 1000000, lon |-> 0], 2) /\ ~DistOK(111175, O, [lat |-> -1000000, lon |-> 0], 5)
ASSUME DistOK(10007543, O, [lat |-> 90000000, lon |-> 123000000], 5)           \* quarter meridian
ASSUME DistOK(20015087, O, [lat |-> 0, lon |-> -180000000], 5)                 \* antipode
ASSUME DistOK(0, [lat |-> 52257202, lon |-> 3919372], [lat |-> 52257202, lon |-> 3919372], 1)
ASSUME Beyond(O, [lat |-> 0, lon |-> 1000000], 100000, 25) /\ Within(O, [lat |-> 0, lon |-> 1000000], 111300, 25)
ASSUME ~Beyond(O, [lat |-> 0, lon |-> 1000000], 111190, 25) /\ ~Within(O, [lat |-> 0, lon |-> 1000000], 111200, 25)
ASSUME DistOK(394728, [lat |-> 52257202, lon |-> 3919372], [lat |-> 48850000, lon |-> 2350000], 2)
ASSUME ~DistOK(394735, [lat |-> 52257202, lon |-> 3919372], [lat |-> 48850000, lon |-> 2350000], 2)
ASSUME DistOK(231360, [lat |-> -35840195, lon |-> 150283852], [lat |-> -33900000, lon |-> 151200000], 2)
ASSUME DistOK(175501, [lat |-> 88917474, lon |-> 101011047], [lat |-> 89500000, lon |-> -70000000], 2)
ASSUME DistOK(21901, [lat |-> 10000000, lon |-> 179900000], [lat |-> 10000000, lon |-> -179900000], 2)
ASSUME DistOK(65, [lat |-> 52000000, lon |-> 4000000], [lat |-> 52000500, lon |-> 4000500], 1)
ASSUME ~DistOK(69, [lat |-> 52000000, lon |-> 4000000], [lat |-> 52000500, lon |-> 4000500], 1)
=============================================================================
