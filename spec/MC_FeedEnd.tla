----------------------------- MODULE MC_FeedEnd -----------------------------
(* Bounded instance of FeedEnd: the feeds of MC_Feed, every segmentation, every gap assignment, and the server *)
(* going away at every point where the client waits.                                                           *)
EXTENDS FeedEnd, IOUtils, TLC

KindLen(c) == CASE c \in {"V", "U"} -> 5 [] c = "S" -> 2 [] OTHER -> 1
RECURSIVE Build(_, _, _)
Build(kinds, i, acc) ==
  IF i > Len(kinds) THEN acc
  ELSE LET n == KindLen(SubSeq(kinds, i, i))
           base == 10 * (i - 1)
           stray == SubSeq(kinds, i, i) = "U"
       IN Build(kinds, i + 1, acc \o [j \in 1..n |-> IF j = n THEN base + 10 ELSE IF stray /\ j = n - 1 THEN base + 9 ELSE base + j])
MCStream == Build(IOEnv.FEED, 1, <<>>)
MCKeep == IOEnv.KEEP = "1"
MCGuard == IOEnv.GUARD = "1"
MCText == IOEnv.TEXTBUF = "1"
MCMaxSegs == atoi(IOEnv.MAXSEGS)
MCClient == IOEnv.CLIENT
=============================================================================
