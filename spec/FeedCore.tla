-------------------------------- MODULE FeedCore --------------------------------
(***************************************************************************)
(* The clients' line loop over a TCP byte stream (C16).                    *)
(*                                                                         *)
(* The server sends a fixed byte stream in segments; after each segment    *)
(* there is a short gap (the next segment arrives before the client's      *)
(* 50 ms read timeout) or a long one (the timeout fires first).  The       *)
(* client repeatedly calls read_line on a buffered reader: it returns a    *)
(* complete line as soon as one is available, or - after a timeout -       *)
(* fails, leaving whatever it had read appended to the line buffer.        *)
(*                                                                         *)
(* Bytes are abstract: line k of the feed is <<10k+1, .., 10k+n-1, 10(k+1)>>*)
(* - the newline is the multiple of 10.  A line of fewer than three bytes  *)
(* cannot be a frame (`*;` + newline is the shortest).                     *)
(*                                                                         *)
(* A byte 10k+9 is a stray byte: not text (not valid UTF-8).               *)
(* TextBuffer = TRUE : the line buffer is text and is filled by read_line, *)
(*                     which hands over nothing of a call whose bytes are  *)
(*                     not valid text: at a newline it fails (the loop     *)
(*                     then clears the buffer), at a timeout it silently   *)
(*                     drops what the call had read - named deviation      *)
(*                     TextBuffer, the code before fix 4fbaf9d (D25);      *)
(* TextBuffer = FALSE: the buffer holds bytes (read_until); a complete     *)
(*                     line that is not text is skipped.                   *)
(* KeepPartial = TRUE : the line buffer survives a timeout and is cleared  *)
(*                      only after a complete line (the code after the fix)*)
(* KeepPartial = FALSE: the original loops cleared the buffer on every     *)
(*                      iteration - named deviation ClearOnTimeout; and    *)
(* GuardShort = FALSE : sliced [1 .. len-2] without a length check.        *)
(***************************************************************************)
EXTENDS Integers, Sequences

CONSTANTS Stream,        \* the bytes the server sends
          KeepPartial, GuardShort, TextBuffer,
          MaxSegs        \* bound on the number of segments of a schedule

VARIABLES sent, gap, avail, input, processed, crashed, pc, sched
vars == <<sent, gap, avail, input, processed, crashed, pc, sched>>

IsPrefix(s, t) == Len(s) <= Len(t) /\ SubSeq(t, 1, Len(s)) = s
IsNL(b) == b % 10 = 0
IsStray(b) == b % 10 = 9
HasStray(s) == \E i \in 1..Len(s) : IsStray(s[i])
NLIdx(s) == IF \E i \in 1..Len(s) : IsNL(s[i]) THEN CHOOSE i \in 1..Len(s) : IsNL(s[i]) /\ \A j \in 1..(i - 1) : ~IsNL(s[j]) ELSE 0

Init == /\ sent = 0 /\ gap = "short" /\ avail = <<>> /\ input = <<>> /\ processed = <<>> /\ crashed = FALSE
        /\ pc = "read" /\ sched = <<>>

\* nothing more arrives within the read timeout
MayTimeOut == gap = "long" \/ sent = Len(Stream)
\* the client has consumed what it can: it waits in read_line for more bytes (a short gap cannot be
\* told from "still processing": the buffered reader just accumulates, so schedules are explored in
\* this canonical interleaving)
ClientBlocked == pc = "read" /\ NLIdx(avail) = 0 /\ (Len(avail) = 0 \/ ~MayTimeOut)

\* the server sends the next k bytes as one segment, followed by a gap of kind g
Send == /\ sent < Len(Stream) /\ ~crashed /\ ClientBlocked
        /\ \E k \in 1..(Len(Stream) - sent), g \in {"short", "long"} :
              /\ (Len(sched) = MaxSegs - 1 => k = Len(Stream) - sent)        \* the last allowed segment carries the rest
              /\ avail' = avail \o SubSeq(Stream, sent + 1, sent + k) /\ sent' = sent + k /\ gap' = g
              /\ sched' = Append(sched, <<k, g>>)
        /\ UNCHANGED <<input, processed, crashed, pc>>

ReadLine ==
  /\ pc = "read" /\ ~crashed
  /\ LET i == NLIdx(avail) IN
     \/ /\ i > 0                                                \* a complete line is there (possibly after short gaps)
        /\ avail' = SubSeq(avail, i + 1, Len(avail))
        /\ IF TextBuffer /\ HasStray(SubSeq(avail, 1, i))
           THEN input' = <<>> /\ pc' = "read"                   \* read_line: InvalidData, the loop clears the buffer
           ELSE input' = input \o SubSeq(avail, 1, i) /\ pc' = "process"
     \/ /\ i = 0 /\ MayTimeOut /\ Len(avail) > 0                \* timeout: the partial line is appended, the call fails
        /\ avail' = <<>> /\ pc' = "read"
        /\ input' = IF ~KeepPartial THEN <<>>                     \* ClearOnTimeout (original code)
                    ELSE IF TextBuffer /\ HasStray(avail) THEN input   \* read_line drops what this call had read
                    ELSE input \o avail
  /\ UNCHANGED <<sent, gap, processed, crashed, sched>>

Process ==
  /\ pc = "process" /\ ~crashed /\ pc' = "read" /\ input' = <<>>
  /\ IF Len(input) < 3
     THEN IF GuardShort THEN UNCHANGED <<processed, crashed>>          \* skipped
          ELSE crashed' = TRUE /\ UNCHANGED processed                  \* [1 .. len-2] panics
     ELSE IF HasStray(input) THEN UNCHANGED <<processed, crashed>>       \* not text: skipped
     ELSE processed' = Append(processed, input) /\ UNCHANGED crashed
  /\ UNCHANGED <<sent, gap, avail, sched>>

Next == Send \/ ReadLine \/ Process
Spec == Init /\ [][Next]_vars

NoCrash == ~crashed
=============================================================================
