------------------------------ MODULE SelfTest ------------------------------
(* Loads every specification module so that SANY parses it and TLC evaluates *)
(* its ASSUME self-tests.                                                    *)
EXTENDS Layout, Velocity, CPR, Geo, Render, Coverage
VARIABLE x
Init == x = 0
Next == x' = x
Spec == Init /\ [][Next]_x
=============================================================================
