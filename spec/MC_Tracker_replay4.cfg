SPECIFICATION Spec
CONSTANTS
  NAddr = 2
  MaxSteps = 4
  MaxT = 2
  PrintReplay = TRUE
INVARIANT Inv
INVARIANT Replay
VIEW View
CHECK_DEADLOCK FALSE
