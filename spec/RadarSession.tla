---------------------------- MODULE RadarSession ----------------------------
(***************************************************************************)
(* The life of one radar process (C16 disconnect/reconnect, C17 "runs      *)
(* until quit is requested, then exits successfully and leaves the         *)
(* terminal as it found it"), shaped like `main` in apps/src/radar/radar.rs*)
(* - one operator per step of the code, the program counter m.pc naming    *)
(* where the code is:                                                      *)
(*                                                                         *)
(*   start      before the terminal is touched                             *)
(*   wait_draw  init_tcp_reader: "Waiting for connection" is drawn         *)
(*   wait       init_tcp_reader: poll keys (q / Ctrl-C quit), try connect  *)
(*   top        top of the main loop: look at settings.quit                *)
(*   read       read_line on the feed                                      *)
(*   lined      a complete line was taken (hook event `line`)              *)
(*   actioned   the tracker processed its frame (hook event `action`)      *)
(*   covered    coverage updated (hook event `coverage`); prune follows    *)
(*   events     drawn (hook event `draw`); input events are being read     *)
(*   bottom     left the loop (hook event `quit`)                          *)
(*   restore    restore_terminal                                           *)
(*   exit       process ended with status 0                                *)
(*                                                                         *)
(* m.term is the terminal as the operator's shell will find it: raw mode,  *)
(* mouse reporting, cursor visibility.  m.quit is settings.quit.           *)
(* m.first tells the first call of init_tcp_reader from a reconnect;       *)
(* m.retry is the --retry-tcp option.                                      *)
(*                                                                         *)
(* ClearOnDisconnect = FALSE: the original kept a partial line across a    *)
(*   disconnect; with --retry-tcp the first line of the new connection was *)
(*   glued to it and lost (named deviation; NoLineSpoiled fails).          *)
(* RestoreOnWaitQuit = TRUE : the code after the fix.                      *)
(* RestoreOnWaitQuit = FALSE: the original returned from main when the     *)
(*   operator quit while waiting for the first connection, leaving the     *)
(*   terminal raw with mouse reporting on (named deviation; TLC shows      *)
(*   TerminalRestored fails).                                              *)
(***************************************************************************)
EXTENDS Integers, Sequences, FiniteSets

CONSTANTS RestoreOnWaitQuit,
          ClearOnDisconnect      \* TRUE: the line buffer is emptied when the server disconnects (the code after the fix)

Cooked == [raw |-> FALSE, mouse |-> FALSE, cursor |-> TRUE]
\* retry: --retry-tcp was given
\* buf: the line buffer holds the beginning of a line ("part") or nothing; stale: what it holds came from a connection
\* that has since been closed; spoiled: a complete line was appended to such a remnant (and so was lost)
M0(retry) == [pc |-> "start", term |-> Cooked, quit |-> "none", tracked |-> {}, first |-> TRUE, status |-> -1, retry |-> retry,
              buf |-> "empty", stale |-> FALSE, spoiled |-> FALSE]

\* ---- internal (unlogged, deterministic) steps -------------------------------------------------
Setup(m) == [m EXCEPT !.pc = "wait_draw", !.term = [raw |-> TRUE, mouse |-> TRUE, cursor |-> TRUE]]   \* EnableMouseCapture, raw mode
WaitDraw(m) == [m EXCEPT !.pc = "wait", !.term.cursor = FALSE]                                         \* terminal.draw hides the cursor
\* top of the loop: `match settings.quit`
Top(m) == CASE m.quit = "none" -> [m EXCEPT !.pc = "read"]
            [] m.quit = "user" -> [m EXCEPT !.pc = "bottom"]
            [] m.quit = "tcp"  -> IF m.retry THEN [m EXCEPT !.pc = "wait_draw"] ELSE [m EXCEPT !.pc = "bottom"]
EndBurst(m) == [m EXCEPT !.pc = "top"]                       \* poll() saw nothing more: the loop goes round
Restore(m) == [m EXCEPT !.pc = "exit", !.term = Cooked, !.status = 0]

\* ---- steps with a hook event (or an observable effect) -----------------------------------------
\* the operator quits while the client waits for a connection
WaitQuit(m) == IF m.first
               THEN (IF RestoreOnWaitQuit THEN [m EXCEPT !.quit = "user", !.pc = "restore"]
                     ELSE [m EXCEPT !.quit = "user", !.pc = "exit", !.status = 0])          \* original: `return Ok(())` at once
               ELSE [m EXCEPT !.quit = "user", !.pc = "bottom"]                              \* `None => break`
Connected(m) == [m EXCEPT !.pc = "top", !.quit = "none", !.first = FALSE]
Line(m) == [m EXCEPT !.pc = "lined", !.buf = "empty", !.stale = FALSE, !.spoiled = m.spoiled \/ m.stale]
\* read_line timed out (or hit the end of the stream) after the beginning of a line: the bytes stay in the buffer
PartialRead(m) == [m EXCEPT !.pc = "covered", !.buf = "part"]
Action(m, keys) == [m EXCEPT !.pc = "actioned", !.tracked = keys]
Coverage(m) == [m EXCEPT !.pc = "covered"]
Draw(m, keys) == [m EXCEPT !.pc = "events", !.tracked = keys, !.term.cursor = FALSE]        \* prune, then draw
Input(m, q) == IF q THEN [m EXCEPT !.quit = "user"] ELSE m
\* read_line returned 0; `continue`.  The original code kept the buffer: after a reconnect the first line of the new
\* connection was appended to the remnant of the old one (named deviation ClearOnDisconnect = FALSE)
Disconnect(m) == IF ClearOnDisconnect THEN [m EXCEPT !.pc = "top", !.quit = "tcp", !.buf = "empty", !.stale = FALSE]
                 ELSE [m EXCEPT !.pc = "top", !.quit = "tcp", !.stale = (m.buf = "part")]
Bottom(m) == [m EXCEPT !.pc = "restore"]                                                     \* settings.quit.unwrap(); hook event `quit`

\* ---- Level A -------------------------------------------------------------------------------------
TerminalRestoredAt(m) == m.pc = "exit" => m.term = Cooked
\* the loop is only ever left for a reason: the unwrap after it cannot fail, and the client ends only when asked to or
\* when the feed went away for good
LeftForAReason(m) == m.pc \in {"bottom", "restore", "exit"} => (m.quit = "user" \/ (m.quit = "tcp" /\ ~m.retry))
\* every complete line of a connection is taken as it was sent (C16): none is glued to bytes of an earlier connection
NoLineSpoiled(m) == ~m.spoiled
\* what an action may do to the tracked set: add at most one aircraft, remove none; what a draw may do: only expire
ActionOK(before, after) == before \subseteq after /\ Cardinality(after \ before) <= 1
DrawOK(before, after) == after \subseteq before
=============================================================================
