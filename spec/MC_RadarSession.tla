--------------------------- MODULE MC_RadarSession --------------------------
(***************************************************************************)
(* RadarSession as a machine with its environment (Step D for the          *)
(* lifecycle parts of C16 and C17): a server that accepts, closes the      *)
(* connection and may or may not come back; an operator who may press a    *)
(* quit key at any poll; traffic from a small set of aircraft; expiry.     *)
(*                                                                         *)
(* Safety: the terminal is as found whenever the process has ended; the    *)
(* loop is only left for a reason; a reconnect keeps the tracked aircraft. *)
(* Liveness (weak fairness on the program's own steps, nothing assumed of  *)
(* operator or server beyond what each property names):                    *)
(*   a quit request leads to exit;                                         *)
(*   without --retry-tcp a closed feed leads to exit;                      *)
(*   with --retry-tcp, if the server is up again for good and nobody       *)
(*   quits, the client is eventually reading the feed again.               *)
(***************************************************************************)
EXTENDS RadarSession, IOUtils, TLC

MCRetry == IOEnv.RETRY = "1"
MCRestore == IOEnv.RESTORE = "1"
MCClear == IOEnv.CLEAR = "1"
MaxCloses == 2
Aircraft == {1, 2}

VARIABLES m,            \* the client (RadarSession state)
          conn,         \* "none" | "open" | "closed" (closed by the server, the client has not noticed yet)
          server,       \* "up" (accepting) | "down"
          closes        \* how often the server has closed a connection (bound)
vars == <<m, conn, server, closes>>

Init == m = M0(MCRetry) /\ conn = "none" /\ server \in {"up", "down"} /\ closes = 0

\* ---- the program ----
PSetup == m.pc = "start" /\ m' = Setup(m) /\ UNCHANGED <<conn, server, closes>>
PWaitDraw == m.pc = "wait_draw" /\ m' = WaitDraw(m) /\ UNCHANGED <<conn, server, closes>>
\* one round of init_tcp_reader's loop: a key may have been pressed; then a connection attempt
PWaitQuit == m.pc = "wait" /\ m' = WaitQuit(m) /\ UNCHANGED <<conn, server, closes>>
PConnect == m.pc = "wait" /\ server = "up" /\ m' = Connected(m) /\ conn' = "open" /\ UNCHANGED <<server, closes>>
PTop == m.pc = "top" /\ m' = Top(m) /\ UNCHANGED <<conn, server, closes>>
PRead == /\ m.pc = "read"
         /\ \/ conn = "closed" /\ m' = Disconnect(m) /\ conn' = "none"                     \* end of file
            \/ conn = "open" /\ m' = Line(m) /\ UNCHANGED conn                                  \* a complete line
            \/ conn = "open" /\ m' = Coverage(m) /\ UNCHANGED conn                              \* timeout, nothing arrived
            \/ conn = "open" /\ m' = PartialRead(m) /\ UNCHANGED conn                           \* timeout after the beginning of a line
         /\ UNCHANGED <<server, closes>>
PLine == /\ m.pc = "lined"
         /\ \/ \E a \in Aircraft : m' = Action(m, m.tracked \cup {a})                          \* a frame the tracker takes
            \/ m' = Coverage(m)                                                                    \* not hex / all zero / undecodable
         /\ UNCHANGED <<conn, server, closes>>
PAction == m.pc = "actioned" /\ m' = Coverage(m) /\ UNCHANGED <<conn, server, closes>>
PDraw == m.pc = "covered" /\ (\E S \in SUBSET m.tracked : m' = Draw(m, m.tracked \ S)) /\ UNCHANGED <<conn, server, closes>>
PInput == m.pc = "events" /\ (\E q \in BOOLEAN : m' = Input(m, q)) /\ UNCHANGED <<conn, server, closes>>
PEndBurst == m.pc = "events" /\ m' = EndBurst(m) /\ UNCHANGED <<conn, server, closes>>
PBottom == m.pc = "bottom" /\ m' = Bottom(m) /\ UNCHANGED <<conn, server, closes>>
PRestore == m.pc = "restore" /\ m' = Restore(m) /\ UNCHANGED <<conn, server, closes>>
Program == PSetup \/ PWaitDraw \/ PWaitQuit \/ PConnect \/ PTop \/ PRead \/ PLine \/ PAction \/ PDraw \/ PInput \/ PEndBurst
           \/ PBottom \/ PRestore
\* the steps the program takes by itself (no operator, no server needed)
Own == PSetup \/ PWaitDraw \/ PTop \/ PRead \/ PLine \/ PAction \/ PDraw \/ PEndBurst \/ PBottom \/ PRestore

\* ---- the environment ----
EClose == conn = "open" /\ closes < MaxCloses /\ conn' = "closed" /\ closes' = closes + 1 /\ server' \in {"up", "down"} /\ UNCHANGED m
EServer == conn # "open" /\ server' \in {"up", "down"} /\ server' # server /\ UNCHANGED <<m, conn, closes>>

Next == Program \/ EClose \/ EServer
Spec == Init /\ [][Next]_vars
FairSpec == Spec /\ WF_vars(Own) /\ WF_vars(PConnect)

\* ---- safety ----
TerminalRestored == TerminalRestoredAt(m)
Reason == LeftForAReason(m)
KeepsAircraft == [][(m.pc = "wait" /\ m'.pc = "top") => m'.tracked = m.tracked]_vars
RunsUntilAsked == [][m'.pc = "exit" => m'.quit # "none"]_vars
TypeOK == m.pc \in {"start", "wait_draw", "wait", "top", "read", "lined", "actioned", "covered", "events", "bottom", "restore", "exit"}
          /\ m.quit \in {"none", "user", "tcp"} /\ m.tracked \subseteq Aircraft
LinesIntact == NoLineSpoiled(m)
Inv == TypeOK /\ TerminalRestored /\ Reason /\ LinesIntact

\* ---- liveness ----
QuitLeadsToExit == (m.quit = "user") ~> (m.pc = "exit")
ClosedFeedLeadsToExit == ~MCRetry => ((conn = "closed" /\ m.pc # "exit") ~> (m.pc = "exit"))
\* with retry: a server that is up for good gets its client back, unless the operator quits
Reconnects == MCRetry => (<>[](server = "up") => []((m.quit = "tcp") => <>(m.quit = "user" \/ (m.quit = "none" /\ m.pc = "top"))))
=============================================================================
