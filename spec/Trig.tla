-------------------------------- MODULE Trig --------------------------------
(***************************************************************************)
(* Fixed-point arithmetic (unit 2^-28) and sine / cosine by Taylor series  *)
(* after exact quadrant reduction, inside TLC's 32-bit integers.           *)
(* Angles enter as integers: 10^-4 degrees (D4) or micro-degrees (UD).     *)
(***************************************************************************)
EXTENDS Integers

ONE == 268435456                       \* 2^28
L14 == 16384                           \* 2^14
AbsT(x) == IF x < 0 THEN -x ELSE x
SgnT(x) == IF x < 0 THEN -1 ELSE 1

\* a*b/2^28 for |a|, |b| <= 2^29 (|value| <= 2): 14-bit limbs keep every partial product below 2^31
MulP(a, b) == LET ah == a \div L14  al == a % L14  bh == b \div L14  bl == b % L14
              IN ah * bh + (ah * bl + al * bh) \div L14 + (al * bl) \div ONE
Mul(a, b) == SgnT(a) * SgnT(b) * MulP(AbsT(a), AbsT(b))

\* Taylor series on [0, pi/4] (x in fixed radians); truncation error < 2^-28
SinS(x) == LET x2 == Mul(x, x)
               t3 == Mul(x, x2) \div 6
               t5 == Mul(t3, x2) \div 20
               t7 == Mul(t5, x2) \div 42
               t9 == Mul(t7, x2) \div 72
               t11 == Mul(t9, x2) \div 110
           IN x - t3 + t5 - t7 + t9 - t11
CosS(x) == LET x2 == Mul(x, x)
               t2 == x2 \div 2
               t4 == Mul(t2, x2) \div 12
               t6 == Mul(t4, x2) \div 30
               t8 == Mul(t6, x2) \div 56
               t10 == Mul(t8, x2) \div 90
           IN ONE - t2 + t4 - t6 + t8 - t10

\* 10^-4 degrees -> fixed radians, for 0 <= u <= 450000 (45 degrees):  2^28*pi/1.8e6 = 468.508254
RadD4(u) == u * 468 + (u * 508) \div 1000 + (u * 254) \div 1000000

\* sine and cosine of an angle given in 10^-4 degrees (any integer), result in units of 2^-28
Full4 == 3600000
Norm4(a) == ((a % Full4) + Full4) % Full4
SinCos4(a) ==
  LET n == Norm4(a)
      q == n \div 900000                   \* quadrant 0..3
      r == n % 900000                      \* 0 .. 90 degrees
      lo == r <= 450000
      x == RadD4(IF lo THEN r ELSE 900000 - r)
      s0 == IF lo THEN SinS(x) ELSE CosS(x)      \* sin r
      c0 == IF lo THEN CosS(x) ELSE SinS(x)      \* cos r
  IN CASE q = 0 -> [s |-> s0, c |-> c0]
       [] q = 1 -> [s |-> c0, c |-> -s0]
       [] q = 2 -> [s |-> -s0, c |-> -c0]
       [] OTHER -> [s |-> -c0, c |-> s0]
Sin4(a) == SinCos4(a).s
Cos4(a) == SinCos4(a).c

\* integer square root (floor), by bisection, for 0 <= n < 2^30
RECURSIVE IsqrtB(_, _, _)
IsqrtB(n, lo, hi) == IF lo >= hi THEN lo
                     ELSE LET mid == (lo + hi + 1) \div 2
                          IN IF mid * mid <= n THEN IsqrtB(n, mid, hi) ELSE IsqrtB(n, lo, mid - 1)
Isqrt(n) == IsqrtB(n, 0, 32767)

ASSUME AbsT(Sin4(300000) - ONE \div 2) <= 4                 \* sin 30 = 1/2
ASSUME AbsT(Cos4(600000) - ONE \div 2) <= 4                 \* cos 60 = 1/2
ASSUME AbsT(Sin4(450000) - 189812531) <= 4                  \* sin 45 = 0.70710678
ASSUME Sin4(900000) = ONE /\ Cos4(900000) = 0 /\ Sin4(1800000) = 0 /\ Cos4(1800000) = -ONE
ASSUME AbsT(Sin4(2100000) + ONE \div 2) <= 4 /\ AbsT(Cos4(-600000) - ONE \div 2) <= 4
ASSUME Isqrt(0) = 0 /\ Isqrt(24) = 4 /\ Isqrt(25) = 5 /\ Isqrt(33423488) = 5781
=============================================================================
