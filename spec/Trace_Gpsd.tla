----------------------------- MODULE Trace_Gpsd -----------------------------
(***************************************************************************)
(* Binds Gpsd to a recorded radar session run against a scripted gpsd      *)
(* server.  Line 1 is the session (the fixes the server reported, the      *)
(* command-line position); every further line is a `draw` of the main      *)
(* loop with the receiver position it used.  The gpsd thread's steps and   *)
(* the main loop's lock/copy/unlock are not logged: TLC infers them - the   *)
(* trace is accepted when some interleaving of Gpsd's actions shows exactly *)
(* the logged positions at the logged draws.  Not a listed property: a      *)
(* rejection is reported as MODEL-DRIFT.                                    *)
(***************************************************************************)
EXTENDS Gpsd, Json, IOUtils, TLC

Rec == ndJsonDeserialize(IOEnv.TRACE)
TFixes == Rec[1].fixes
TLocked == TRUE
VARIABLE l
tvars == <<cell, holder, gpc, gi, mpc, pos, l>>

ObsPos(i) == IF <<Rec[i].lat, Rec[i].long>> = Rec[1].cmd THEN <<>> ELSE <<Rec[i].lat, Rec[i].long>>
TraceInit == Init /\ l = 2 /\ TLCSet(42, 2)
TraceNext ==
  \/ Gps /\ UNCHANGED l
  \/ (MLock \/ MCopy \/ MUnlock) /\ UNCHANGED l
  \/ MRest /\ l <= Len(Rec) /\ pos = ObsPos(l) /\ l' = l + 1
TraceSpec == TraceInit /\ [][TraceNext]_tvars
\* the furthest line any explored behaviour has explained (needs -workers 1)
Track == TLCSet(42, IF l > TLCGet(42) THEN l ELSE TLCGet(42))
Accepted ==
  /\ (IF TLCGet(42) = Len(Rec) + 1 THEN TRUE ELSE PrintT(<<"INFO", "MODEL-DRIFT", TLCGet(42), "gpsd_not_a_behaviour">>))
  /\ (IF Len(Rec) >= 2 /\ Len(TFixes) > 0 /\ <<Rec[Len(Rec)].lat, Rec[Len(Rec)].long>> # TFixes[Len(TFixes)]
      THEN PrintT(<<"INFO", "MODEL-DRIFT", Len(Rec), "gpsd_last_fix_not_adopted">>) ELSE TRUE)
=============================================================================
