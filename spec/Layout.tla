------------------------------- MODULE Layout -------------------------------
(***************************************************************************)
(* The frame grammar as data (Appendix B of DESIGN.md): for every ME / MB   *)
(* payload variant the list of <<name, offset, width>> rows, offsets from   *)
(* the first bit of the 56-bit field; "-" rows are reserved bits.           *)
(* Structural lemmas (ASSUME, evaluated by TLC): the rows of every variant  *)
(* tile the 56 bits exactly - no overlap, no hole - and the field           *)
(* extraction of Frame.tla agrees with the table on sample payloads, so the *)
(* two renderings of the standard check each other.                         *)
(***************************************************************************)
EXTENDS Frame

Rows(k) ==
  CASE k = "ident" -> << <<"tc", 0, 5>>, <<"cat", 5, 3>> >> \o [i \in 1..8 |-> <<"ch", 8 + 6 * (i - 1), 6>>]
    [] k = "surface" -> << <<"tc", 0, 5>>, <<"mov", 5, 7>>, <<"gts", 12, 1>>, <<"trk", 13, 7>>, <<"t", 20, 1>>, <<"f", 21, 1>>,
                           <<"lat", 22, 17>>, <<"lon", 39, 17>> >>
    [] k = "airpos" -> << <<"tc", 0, 5>>, <<"ss", 5, 2>>, <<"saf", 7, 1>>, <<"altcode", 8, 12>>, <<"t", 20, 1>>, <<"f", 21, 1>>,
                          <<"lat", 22, 17>>, <<"lon", 39, 17>> >>
    [] k = "velgs" -> << <<"tc", 0, 5>>, <<"vst", 5, 3>>, <<"vnac5", 8, 5>>, <<"dew", 13, 1>>, <<"vew", 14, 10>>, <<"dns", 24, 1>>,
                         <<"vns", 25, 10>>, <<"vrsrc", 35, 1>>, <<"vrsign", 36, 1>>, <<"vr", 37, 9>>, <<"-", 46, 2>>,
                         <<"difsign", 48, 1>>, <<"difraw", 49, 7>> >>
    [] k = "velas" -> << <<"tc", 0, 5>>, <<"vst", 5, 3>>, <<"vnac5", 8, 5>>, <<"hst", 13, 1>>, <<"hdg", 14, 10>>, <<"ast", 24, 1>>,
                         <<"asraw", 25, 10>>, <<"vrsrc", 35, 1>>, <<"vrsign", 36, 1>>, <<"vr", 37, 9>>, <<"-", 46, 2>>,
                         <<"difsign", 48, 1>>, <<"difraw", 49, 7>> >>
    [] k = "status" -> << <<"tc", 0, 5>>, <<"st", 5, 3>>, <<"es", 8, 3>>, <<"idcode", 11, 13>>, <<"-", 24, 32>> >>
    [] k = "tss" -> << <<"tc", 0, 5>>, <<"sub29", 5, 2>>, <<"silsup", 7, 1>>, <<"alttype", 8, 1>>, <<"altraw", 9, 11>>, <<"qnhraw", 20, 9>>,
                       <<"hdgst", 29, 1>>, <<"hdgraw", 30, 9>>, <<"nacp", 39, 4>>, <<"nicbaro", 43, 1>>, <<"sil", 44, 2>>,
                       <<"modest", 46, 1>>, <<"ap29", 47, 1>>, <<"vnav", 48, 1>>, <<"althold", 49, 1>>, <<"adsr", 50, 1>>,
                       <<"appr", 51, 1>>, <<"tcas", 52, 1>>, <<"lnav", 53, 1>>, <<"-", 54, 2>> >>
    [] k = "opair" -> << <<"tc", 0, 5>>, <<"st", 5, 3>>, <<"-", 8, 2>>, <<"acas", 10, 1>>, <<"cdti", 11, 1>>, <<"-", 12, 2>>, <<"arv", 14, 1>>,
                         <<"ts", 15, 1>>, <<"cctc", 16, 2>>, <<"-", 18, 6>>, <<"-", 24, 2>>, <<"ra", 26, 1>>, <<"ident", 27, 1>>, <<"atc", 28, 1>>,
                         <<"omsaf", 29, 1>>, <<"sda", 30, 2>>, <<"-", 32, 8>>, <<"ver", 40, 3>>, <<"nica", 43, 1>>, <<"nacp", 44, 4>>,
                         <<"gva", 48, 2>>, <<"sil", 50, 2>>, <<"nicbaro", 52, 1>>, <<"hrd", 53, 1>>, <<"silsup", 54, 1>>, <<"-", 55, 1>> >>
    [] k = "opsurf" -> << <<"tc", 0, 5>>, <<"st", 5, 3>>, <<"-", 8, 2>>, <<"poa", 10, 1>>, <<"es1090", 11, 1>>, <<"-", 12, 2>>, <<"b2low", 14, 1>>,
                          <<"uatin", 15, 1>>, <<"nacv", 16, 3>>, <<"nicc", 19, 1>>, <<"lw", 20, 4>>, <<"-", 24, 2>>, <<"ra", 26, 1>>,
                          <<"ident", 27, 1>>, <<"atc", 28, 1>>, <<"omsaf", 29, 1>>, <<"sda", 30, 2>>, <<"gps", 32, 8>>, <<"ver", 40, 3>>,
                          <<"nica", 43, 1>>, <<"nacp", 44, 4>>, <<"-", 48, 2>>, <<"sil", 50, 2>>, <<"trkhdg", 52, 1>>, <<"hrd", 53, 1>>,
                          <<"silsup", 54, 1>>, <<"-", 55, 1>> >>
    [] k = "dlc" -> << <<"bds", 0, 8>>, <<"cont", 8, 1>>, <<"-", 9, 5>>, <<"ovc", 14, 1>>, <<"dlacas", 15, 1>>, <<"subnet", 16, 7>>, <<"enh", 23, 1>>,
                       <<"spec", 24, 1>>, <<"uelm", 25, 3>>, <<"delm", 28, 4>>, <<"idcap", 32, 1>>, <<"sqcap", 33, 1>>, <<"sic", 34, 1>>,
                       <<"gicb", 35, 1>>, <<"acasbits", 36, 4>>, <<"dte", 40, 16>> >>
    [] OTHER -> << <<"bds", 0, 8>> >> \o [i \in 1..8 |-> <<"ch", 8 + 6 * (i - 1), 6>>]          \* "bdsid"

Kinds == {"ident", "surface", "airpos", "velgs", "velas", "status", "tss", "opair", "opsurf", "dlc", "bdsid"}

\* the rows tile bits 0..55: each row starts where the previous one ended, the last one ends at 56
Tiles(r) == /\ r[1][2] = 0
            /\ \A i \in 1..(Len(r) - 1) : r[i][2] + r[i][3] = r[i + 1][2]
            /\ r[Len(r)][2] + r[Len(r)][3] = 56
ASSUME \A k \in Kinds : Tiles(Rows(k))

\* Frame.tla's extraction agrees with the table: for every row whose name is a key of the contract's record and whose
\* value is the raw field, on sample payloads of the variant
Sample(tc, st, fill) == <<141, 1, 2, 3>> \o <<(tc * 8 + st) % 256>> \o [i \in 1..6 |-> (fill * (i + 3) + 17 * i) % 256] \o <<9, 9, 9>>
RawNames == {"cat", "mov", "gts", "trk", "t", "f", "lat", "lon", "ss", "saf", "vst", "vnac5", "dew", "vew", "dns", "vns", "vrsrc", "vrsign", "vr",
             "difsign", "hst", "hdg", "ast", "es", "sub29", "alttype", "hdgst", "nacp", "nicbaro", "sil", "modest", "ap29", "vnav", "althold",
             "adsr", "appr", "tcas", "lnav", "acas", "cdti", "arv", "ts", "cctc", "ra", "ident", "atc", "omsaf", "sda", "ver", "nica", "gva",
             "hrd", "silsup", "poa", "es1090", "b2low", "uatin", "nacv", "nicc", "lw", "gps", "trkhdg"}
Agrees(b, k) == LET e == MEFields(b, 32)  r == Rows(k) IN
                \A i \in 1..Len(r) : (r[i][1] \in RawNames /\ r[i][1] \in DOMAIN e) => e[r[i][1]] = Field(b, 32 + r[i][2], r[i][3])
ASSUME \A fill \in {0, 1, 77, 131, 255} :
          /\ Agrees(Sample(2, 5, fill), "ident") /\ Agrees(Sample(6, 3, fill), "surface") /\ Agrees(Sample(11, 2, fill), "airpos")
          /\ Agrees(Sample(19, 1, fill), "velgs") /\ Agrees(Sample(19, 3, fill), "velas") /\ Agrees(Sample(28, 1, fill), "status")
          /\ Agrees(Sample(29, 2, fill), "tss") /\ Agrees(Sample(31, 0, fill), "opair") /\ Agrees(Sample(31, 1, fill), "opsurf")
=============================================================================
