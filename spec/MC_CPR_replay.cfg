SPECIFICATION Spec
INVARIANT RoundTripOK
INVARIANT Replay
CHECK_DEADLOCK FALSE
