SPECIFICATION Spec
INVARIANT RangeOK
CHECK_DEADLOCK FALSE
