---------------------------- MODULE Trace_Config ----------------------------
(***************************************************************************)
(* Trace specification for C20: the allocation-only build and the std      *)
(* build run the same inputs; every event carries both projections.        *)
(*   cstream : frames decoded one after the other from one reader (the     *)
(*             build's own cursor type) in both builds                     *)
(*   cdecode : decode + text of one buffer in both builds, plus the        *)
(*             serialize/deserialize round trip of the frame (std+serde)   *)
(*   cpair   : CPR pairing in both builds                                  *)
(*   ctrack  : one tracker step in both builds (complete projected state)  *)
(* Each projection must equal the other (configs_agree); the decode and    *)
(* pairing results are also judged against the contract for their own      *)
(* properties.                                                             *)
(***************************************************************************)
EXTENDS Frame, CPR, Json, IOUtils

Rec == ndJsonDeserialize(IOEnv.TRACE)
VARIABLE l
vars == <<l>>

EvDiff(ev) ==
  CASE ev.ev = "cdecode" ->
            (IF ev.std.out = ev.alloc.out /\ ev.std.outcome = ev.alloc.outcome THEN {} ELSE {"configs_decode"})
       \cup (IF ev.std.text = ev.alloc.text THEN {} ELSE {"configs_text"})
       \cup (IF "serde" \in DOMAIN ev.std => ev.std.serde = ev.std.out THEN {} ELSE {"serde_frame"})
       \* ... and as a whole value (Debug form), for what the projection does not tell apart
       \cup (IF "serde_eq" \in DOMAIN ev.std => ev.std.serde_eq = 1 THEN {} ELSE {"serde_frame_equality"})
    [] ev.ev = "cstream" -> IF ev.std = ev.alloc THEN {} ELSE {"configs_stream"}
    [] ev.ev = "cpair" -> IF ev.std = ev.alloc THEN {} ELSE {"configs_pair"}
    [] ev.ev = "ctrack" -> (IF ev.std.planes = ev.alloc.planes THEN {} ELSE {"configs_tracker"})
                           \cup (IF ev.std.added = ev.alloc.added /\ ev.std.outcome = ev.alloc.outcome THEN {} ELSE {"configs_added"})
    [] OTHER -> {}

ClassOf(ev) == IF "bytes" \in DOMAIN ev THEN "config|" \o ev.ev \o "|" \o Class(ev.bytes) ELSE "config|" \o ev.ev

Judge(i) ==
  LET ev == Rec[i]
      d == EvDiff(ev)
      own == IF ev.ev = "cdecode" THEN Diff(ev.std.out, ev.bytes) ELSE {}
  IN /\ (IF d = {} THEN TRUE ELSE PrintT(<<"VERDICT", i, ClassOf(ev), {<<"C20", f>> : f \in d}>>))
     /\ (IF own = {} THEN TRUE ELSE PrintT(<<"VERDICT", i, Class(ev.bytes), {<<Owner(f), f>> : f \in own}>>))

Init == l = 1
Next == l <= Len(Rec) /\ Judge(l) /\ l' = l + 1
Spec == Init /\ [][Next]_vars
Accepted == IF TLCGet("stats").diameter = Len(Rec) + 1 THEN TRUE
            ELSE PrintT(<<"TRACE-NOT-CONSUMED", TLCGet("stats").diameter, Len(Rec)>>) /\ FALSE
=============================================================================
