------------------------------- MODULE Frame --------------------------------
(***************************************************************************)
(* Level A (contract) of the decoder: a total function from byte strings   *)
(* to abstract results.  Written from Annex 10 / DO-260B / ICAO 9871 bit   *)
(* assignments (Appendix B of DESIGN.md), not from the code.               *)
(*                                                                         *)
(* Expect(b)  : record of fields whose value is prescribed exactly         *)
(* Loose(b)   : record field -> set of admissible values (where the        *)
(*              property leaves a choice, e.g. "0 / None")                 *)
(* Diff(out,b): names of the fields on which an observed projection        *)
(*              disagrees with the contract                                *)
(* Owner(f)   : the listed property a field belongs to                     *)
(***************************************************************************)
EXTENDS Bits, Crc, ModeAC, FiniteSets, TLC

Short == {0, 4, 5, 11}
Long  == {16, 17, 18, 19, 20, 21} \cup (24..31)
Supported == Short \cup Long
FrameLen(df) == IF df \in Short THEN 7 ELSE 14
DFof(b) == b[1] \div 8

\* --- type 31 (operational status) acceptance gate: version 0..2 layout --------------------
\* o = offset of the first ME bit
OpStatusRejects(b, o) ==
  LET st == Field(b, o + 5, 3) IN
  /\ Field(b, o, 5) = 31
  /\ st \in {0, 1}
  /\ \/ Field(b, o + 8, 2) # 0                         \* CC reserved, both subtypes
     \/ (st = 0 /\ Field(b, o + 12, 2) # 0)            \* airborne CC reserved
     \/ Field(b, o + 24, 2) # 0                        \* OM reserved / format
     \/ Field(b, o + 40, 3) > 2                        \* version number

Accepts(b) ==
  /\ Len(b) >= 1
  /\ DFof(b) \in Supported
  /\ Len(b) >= FrameLen(DFof(b))
  /\ ~(DFof(b) \in {17, 18} /\ OpStatusRejects(b, 32))

\* --- identification character set (Annex 10 vol IV table 3-9), as character codes ---------
Hash == 35
CharCode(c) == IF c >= 1 /\ c <= 26 THEN 64 + c        \* A..Z
               ELSE IF c = 32 THEN 32                  \* space
               ELSE IF c >= 48 /\ c <= 57 THEN c       \* 0..9
               ELSE Hash                               \* unassigned -> '#'
Chars8(b, o) == [k \in 1..8 |-> CharCode(Field(b, o + 6 * (k - 1), 6))]

RECURSIVE DropLeading(_)
DropLeading(s) == IF s # <<>> /\ Head(s) = 32 THEN DropLeading(Tail(s)) ELSE s
RECURSIVE DropTrailing(_)
DropTrailing(s) == IF s # <<>> /\ s[Len(s)] = 32 THEN DropTrailing(SubSeq(s, 1, Len(s) - 1)) ELSE s
Trim(s) == DropTrailing(DropLeading(s))
NoSpaces(s) == SelectSeq(s, LAMBDA c : c # 32)

\* The property speaks of *padding* being removed; whether interior spaces are kept is left open.
CallsignOK(got, full) ==
  /\ NoSpaces(got) = NoSpaces(full)
  /\ Len(got) <= Len(Trim(full))
  /\ (got # <<>> => got[1] # 32 /\ got[Len(got)] # 32)

\* --- ME field (56 bits at offset o) --------------------------------------------------------
\* mek: payload variant selected by the type code (and subtype for 31), per the documented table
MEKind(tc, st31) ==
  CASE tc = 0 -> 0
    [] tc \in 1..4 -> 1
    [] tc \in 5..8 -> 2
    [] tc \in 9..18 -> 3
    [] tc = 19 -> 4
    [] tc \in 20..22 -> 5
    [] tc = 23 -> 6
    [] tc = 24 -> 7
    [] tc \in 25..27 -> 8
    [] tc = 28 -> 9
    [] tc = 29 -> 10
    [] tc = 30 -> 11
    [] tc = 31 -> IF st31 = 0 THEN 12 ELSE IF st31 = 1 THEN 13 ELSE 14

VelocityFields(b, o) ==
  LET st == Field(b, o + 5, 3)
      common == [vst |-> st, vnac5 |-> Field(b, o + 8, 5),
                 vrsrc |-> Field(b, o + 35, 1), vrsign |-> Field(b, o + 36, 1), vr |-> Field(b, o + 37, 9),
                 difsign |-> Field(b, o + 48, 1)]
      gs == [dew |-> Field(b, o + 13, 1), vew |-> Field(b, o + 14, 10),
             dns |-> Field(b, o + 24, 1), vns |-> Field(b, o + 25, 10)]
      as == [hst |-> Field(b, o + 13, 1), hdg |-> Field(b, o + 14, 10), ast |-> Field(b, o + 24, 1)]
      \* reserved subtypes: the 22 bits after the accuracy field, as the library views them (a 22-bit little-endian
      \* read: first eight bits least significant) - opaque, no property constrains them (owner "I")
      x == Field(b, o + 13, 22)
      rs == [vraw22 |-> (x % 64) * 65536 + ((x \div 64) % 256) * 256 + x \div 16384, vrk |-> IF st = 0 THEN 0 ELSE 1]
  IN IF st \in {1, 2} THEN common @@ gs
     ELSE IF st \in {3, 4} THEN common @@ as
     ELSE common @@ rs

MEFields(b, o) ==
  LET tc == Field(b, o, 5)
      st31 == Field(b, o + 5, 3)
      k  == MEKind(tc, st31)
      base == [mek |-> k]
      pos == [tc |-> tc, ss |-> Field(b, o + 5, 2), saf |-> Field(b, o + 7, 1),
              t |-> Field(b, o + 20, 1), f |-> Field(b, o + 21, 1),
              lat |-> Field(b, o + 22, 17), lon |-> Field(b, o + 39, 17)]
      om == [ra |-> Field(b, o + 26, 1), ident |-> Field(b, o + 27, 1), atc |-> Field(b, o + 28, 1),
             omsaf |-> Field(b, o + 29, 1), sda |-> Field(b, o + 30, 2)]
  IN CASE k = 1 -> base @@ [tcl |-> tc, cat |-> Field(b, o + 5, 3)]
       [] k = 2 -> base @@ [mov |-> Field(b, o + 5, 7), gts |-> Field(b, o + 12, 1), trk |-> Field(b, o + 13, 7),
                            t |-> Field(b, o + 20, 1), f |-> Field(b, o + 21, 1),
                            lat |-> Field(b, o + 22, 17), lon |-> Field(b, o + 39, 17)]
       [] k \in {3, 5} -> base @@ pos
       [] k = 4 -> base @@ VelocityFields(b, o)
       [] k = 9 -> base @@ [st28 |-> Min(Field(b, o + 5, 3), 3), es |-> Field(b, o + 8, 3),
                            id |-> Identity(Field(b, o + 11, 13))]
       [] k = 10 -> base @@ [sub29 |-> Field(b, o + 5, 2), alttype |-> Field(b, o + 8, 1),
                             selalt |-> LET n == Field(b, o + 9, 11) IN IF n = 0 THEN 0 ELSE (n - 1) * 32,
                             qnh10 |-> LET n == Field(b, o + 20, 9) IN IF n = 0 THEN 0 ELSE 8000 + (n - 1) * 8,
                             hdgst |-> Field(b, o + 29, 1),
                             hdgmd |-> Field(b, o + 30, 9) * 703125,                \* micro-degrees
                             nacp |-> Field(b, o + 39, 4), nicbaro |-> Field(b, o + 43, 1), sil |-> Field(b, o + 44, 2),
                             modest |-> Field(b, o + 46, 1), ap29 |-> Field(b, o + 47, 1), vnav |-> Field(b, o + 48, 1),
                             althold |-> Field(b, o + 49, 1), adsr |-> Field(b, o + 50, 1), appr |-> Field(b, o + 51, 1),
                             tcas |-> Field(b, o + 52, 1), lnav |-> Field(b, o + 53, 1)]
       [] k = 12 -> base @@ om @@
                    [acas |-> Field(b, o + 10, 1), cdti |-> Field(b, o + 11, 1), arv |-> Field(b, o + 14, 1),
                     ts |-> Field(b, o + 15, 1), cctc |-> Field(b, o + 16, 2),
                     ver |-> Field(b, o + 40, 3), nica |-> Field(b, o + 43, 1), nacp |-> Field(b, o + 44, 4),
                     gva |-> Field(b, o + 48, 2), sil |-> Field(b, o + 50, 2), nicbaro |-> Field(b, o + 52, 1),
                     hrd |-> Field(b, o + 53, 1), silsup |-> Field(b, o + 54, 1)]
       [] k = 13 -> base @@ om @@
                    [poa |-> Field(b, o + 10, 1), es1090 |-> Field(b, o + 11, 1), b2low |-> Field(b, o + 14, 1),
                     uatin |-> Field(b, o + 15, 1), nacv |-> Field(b, o + 16, 3), nicc |-> Field(b, o + 19, 1),
                     lw |-> Field(b, o + 20, 4), gps |-> Field(b, o + 32, 8),
                     ver |-> Field(b, o + 40, 3), nica |-> Field(b, o + 43, 1), nacp |-> Field(b, o + 44, 4),
                     sil |-> Field(b, o + 50, 2), trkhdg |-> Field(b, o + 52, 1),
                     hrd |-> Field(b, o + 53, 1), silsup |-> Field(b, o + 54, 1)]
       \* payloads the library does not interpret, exposed as opaque bytes "as the library views them" (owner "I":
       \* implementation-shaped, not a listed property): the 48 bits after the type code for the variants selected by one
       \* identifier value, the first six bytes of the field for those selected by an identifier pattern
       [] k \in {0, 6, 11} -> base @@ [raw |-> [i \in 1..6 |-> Field(b, o + 5 + 8 * (i - 1), 8)]]
       [] k \in {7, 8} -> base @@ [raw |-> [i \in 1..6 |-> Field(b, o + 8 * (i - 1), 8)]]
       [] k = 14 -> base @@ [rsv5 |-> Field(b, o, 5), raw |-> [i \in 1..5 |-> Field(b, o + 5 + 8 * (i - 1), 8)]]
       [] OTHER -> base

MELoose(b, o) ==
  LET tc == Field(b, o, 5) k == MEKind(tc, Field(b, o + 5, 3)) IN
  CASE k \in {3, 5} -> LET a == AC12(Field(b, o + 8, 12)) IN
                       [alt |-> IF a = 0 THEN {-1, 0} ELSE {a}]          \* "0 / None" for no altitude
    [] k = 4 -> LET st == Field(b, o + 5, 3)
                    d  == Field(b, o + 49, 7)
                    a  == Field(b, o + 25, 10)
                    difset == [dif |-> IF d = 0 THEN 0..65535 ELSE {(d - 1) * 25}]        \* raw 0: no information
                IN IF st \in {3, 4} THEN difset @@ [as |-> IF a = 0 THEN 0..65535 ELSE {a - 1}] ELSE difset
    [] OTHER -> << >>

\* --- MB field (56 bits at offset o) --------------------------------------------------------
BDSKind(id) == CASE id = 0 -> 0 [] id = 16 -> 1 [] id = 32 -> 2 [] OTHER -> 3
MBFields(b, o) ==
  LET k == BDSKind(Field(b, o, 8)) IN
  IF k = 1 THEN [bdsk |-> k, cont |-> Field(b, o + 8, 1), ovc |-> Field(b, o + 14, 1), dlacas |-> Field(b, o + 15, 1),
                 subnet |-> Field(b, o + 16, 7), enh |-> Field(b, o + 23, 1), spec |-> Field(b, o + 24, 1),
                 uelm |-> Field(b, o + 25, 3), delm |-> Field(b, o + 28, 4), idcap |-> Field(b, o + 32, 1),
                 sqcap |-> Field(b, o + 33, 1), sic |-> Field(b, o + 34, 1), gicb |-> Field(b, o + 35, 1),
                 acasbits |-> Field(b, o + 36, 4), dte |-> Field(b, o + 40, 16)]
  \* the registers the library does not interpret: the bytes after the register number (and the number itself), opaque
  ELSE IF k = 0 THEN [bdsk |-> k, raw |-> [i \in 1..6 |-> Field(b, o + 8 * i, 8)]]
  ELSE IF k = 3 THEN [bdsk |-> k, bdsid |-> Field(b, o, 8), raw |-> [i \in 1..6 |-> Field(b, o + 8 * i, 8)]]
  ELSE [bdsk |-> k]

\* the full eight-character identification, or <<>> when the frame carries none
CsFull(b) ==
  IF ~Accepts(b) THEN <<>>
  ELSE LET df == DFof(b) IN
       IF df \in {17, 18} /\ Field(b, 32, 5) \in 1..4 THEN Chars8(b, 40)
       ELSE IF df \in {20, 21} /\ Field(b, 32, 8) = 32 THEN Chars8(b, 40)
       ELSE <<>>

Surv(b) == [fs |-> Field(b, 5, 3), dr |-> Field(b, 8, 5), iis |-> Field(b, 13, 4), ids |-> Field(b, 17, 2)]

Expect(b) ==
  IF ~Accepts(b) THEN [ok |-> 0]
  ELSE LET df == DFof(b)
           hd == [ok |-> 1, df |-> df, crc |-> Checksum(b, FrameLen(df))]
       IN CASE df = 0  -> hd @@ [vs |-> Field(b, 5, 1), cc |-> Field(b, 6, 1), sl |-> Field(b, 8, 3), ri |-> Field(b, 13, 4),
                                 ac |-> AC13(Field(b, 19, 13)), ap |-> Field(b, 32, 24)]
            [] df = 4  -> hd @@ Surv(b) @@ [ac |-> AC13(Field(b, 19, 13)), ap |-> Field(b, 32, 24)]
            [] df = 5  -> hd @@ Surv(b) @@ [id |-> Identity(Field(b, 19, 13)), ap |-> Field(b, 32, 24)]
            [] df = 11 -> hd @@ [ca |-> Field(b, 5, 3), aa |-> Field(b, 8, 24), pi |-> Field(b, 32, 24)]
            [] df = 16 -> hd @@ [vs |-> Field(b, 5, 1), sl |-> Field(b, 8, 3), ri |-> Field(b, 13, 4),
                                 ac |-> AC13(Field(b, 19, 13)), mv |-> Bytes(b, 4, 7), ap |-> Field(b, 88, 24)]
            [] df = 17 -> hd @@ [ca |-> Field(b, 5, 3), aa |-> Field(b, 8, 24), pi |-> Field(b, 88, 24)] @@ MEFields(b, 32)
            [] df = 18 -> hd @@ [cf |-> Field(b, 5, 3), aa |-> Field(b, 8, 24), pi |-> Field(b, 88, 24)] @@ MEFields(b, 32)
            [] df = 19 -> hd @@ [af |-> Field(b, 5, 3)]
            [] df = 20 -> hd @@ Surv(b) @@ [ac |-> AC13(Field(b, 19, 13))] @@ MBFields(b, 32)
            [] df = 21 -> hd @@ Surv(b) @@ [id |-> Identity(Field(b, 19, 13)), ap |-> Field(b, 88, 24)] @@ MBFields(b, 32)
            \* DF24-31 as the library views them; the 51 data bits are opaque (not an interpreted payload, so
            \* no property constrains them - the library exposes them in host byte order)
            [] OTHER   -> hd @@ [ca |-> Field(b, 5, 3), aa |-> Field(b, 8, 24), tc |-> Field(b, 32, 5), pi |-> Field(b, 88, 24)]

Loose(b) ==
  IF ~Accepts(b) THEN << >>
  ELSE IF DFof(b) \in {17, 18} THEN MELoose(b, 32) ELSE << >>

\* each abstract field belongs to exactly one listed property
Owner(f) ==
  CASE f = "ok" -> "C02"
    [] f = "crc" -> "C03"
    [] f \in {"df", "aa", "pi", "ap", "ca", "cf", "fs", "dr", "iis", "ids", "vs", "cc", "sl", "ri", "mv", "af"} -> "C04"
    [] f \in {"ac", "alt"} -> "C06"
    [] f \in {"vst", "vnac5", "vrsrc", "vrsign", "vr", "difsign", "dif", "dew", "vew", "dns", "vns",
              "hst", "hdg", "ast", "as"} -> "C07"
    [] f \in {"cs", "cat", "tcl"} -> "C08"
    [] f \in {"id", "es", "st28"} -> "C09"
    [] f = "variant_rejected" -> "C10"
    [] f \in {"raw", "rsv5", "vraw22", "vrk", "bdsid"} -> "I"          \* opaque bytes: no listed property; reported as drift of the model
    [] OTHER -> "C10"

\* --- comparison ------------------------------------------------------------------------------
Diff(out, b) ==
  LET e == Expect(b)  l == Loose(b)  full == CsFull(b) IN
  IF e.ok = 0 \/ ("ok" \in DOMAIN out /\ out.ok = 0)
  THEN IF "ok" \in DOMAIN out /\ out.ok = e.ok THEN {} ELSE
       \* a frame that carries an interpreted payload and is refused had no payload variant selected for it: that is the
       \* dispatch table's (C10) as much as acceptance's (C02)
       {"ok"} \cup (IF e.ok = 1 /\ DFof(b) \in {17, 18, 20, 21} THEN {"variant_rejected"} ELSE {})
       \* ... and the codes it carries did not decode to anything: altitude (C06), velocity (C07), identification (C08),
       \* identity (C09) - the properties that speak of "every code", not of "every accepted frame"
       \cup (IF e.ok = 1 THEN {k \in DOMAIN e \cup DOMAIN l : Owner(k) \in {"C06", "C07", "C08", "C09"}} \cup (IF full = <<>> THEN {} ELSE {"cs"})
             ELSE {})
  ELSE    {k \in DOMAIN e : k \notin DOMAIN out \/ out[k] # e[k]}
     \cup {k \in DOMAIN l : k \notin DOMAIN out \/ out[k] \notin l[k]}
     \cup (IF full = <<>> THEN {}
           ELSE IF "cs" \in DOMAIN out /\ CallsignOK(out.cs, full) THEN {} ELSE {"cs"})

\* coarse signature of an input, used for known findings and coverage counters
DFTag(b) == IF Len(b) = 0 THEN "df=none" ELSE "df=" \o ToString(DFof(b))
Class(b) ==
  IF Len(b) = 0 THEN "df=none"
  ELSE LET df == DFof(b) IN
       IF df \in {17, 18} /\ Len(b) >= 5
       THEN DFTag(b) \o "|tc=" \o ToString(Field(b, 32, 5))
       ELSE IF df \in {20, 21} /\ Len(b) >= 5
       THEN DFTag(b) \o "|bds=" \o ToString(BDSKind(Field(b, 32, 8)))
       ELSE DFTag(b)

README == <<141,162,193,189,88,123,162,173,179,23,153,203,128,43>>
ASSUME Expect(README).aa = 10666429 /\ Expect(README).tc = 11 /\ Expect(README).lat = 87769
ASSUME Expect(README).lon = 71577 /\ Expect(README).crc = 0 /\ Loose(README).alt = {23650}
ASSUME Expect(<<8, 0>>) = [ok |-> 0]
=============================================================================
