------------------------------ MODULE RadarUI -------------------------------
(***************************************************************************)
(* The radar client's operator interface (C17, C18) as a state machine:    *)
(* what each key, mouse event and redraw does to the view state.  Written  *)
(* like the code: one operator per handler, the table selection clamped    *)
(* when the Airplanes tab is drawn, several input events possible between  *)
(* two draws.                                                              *)
(*                                                                         *)
(* View state s:                                                           *)
(*   tab    0 Map, 1 Coverage, 2 Airplanes, 3 Stats, 4 Help                *)
(*   sel    selected table row, -1 for none                                *)
(*   zoom   number of zoom-out steps minus zoom-in steps (scale = s0/1.1^z) *)
(*   clat, clong   custom centre: <<>> or <<micro-degrees>>                *)
(*   drag   <<>> or <<col, row>>: last position of a drag in progress      *)
(*   tog    the five display toggles                                       *)
(*   quit, panicked                                                        *)
(* Environment of a step: rows = number of tracked aircraft, Det(i) = the  *)
(* i-th aircraft (0-based, in address order) has details, Pos(i) = its     *)
(* position, rx = receiver position, touch = --touchscreen.                *)
(*                                                                         *)
(* Guards = TRUE : the selection handling of the code after the fix.       *)
(* Guards = FALSE: the original code - drawing the Airplanes tab with a    *)
(*   selection and no rows underflows, Enter on a selection beyond the     *)
(*   rows unwraps None (named deviations; TLC shows NoPanic fails).        *)
(***************************************************************************)
EXTENDS Integers, Sequences

CONSTANT Guards

NoSel == -1
Init0 == [tab |-> 0, sel |-> NoSel, zoom |-> 0, clat |-> <<>>, clong |-> <<>>, drag |-> <<>>,
          tog |-> <<0, 0, 0, 0, 0>>, quit |-> FALSE, panicked |-> FALSE]

OnMap(s) == s.tab \in {0, 1}
Flip(t, i) == [t EXCEPT ![i] = 1 - t[i]]
Base(c, d) == IF c = <<>> THEN d ELSE c[1]

\* keys: code is the crossterm KeyCode as the hook prints it; ctrl = CONTROL modifier only
KeyStep(s, code, ctrl, rows, Det(_), Pos(_), rx) ==
  \* (an IF chain rather than CASE: the guards are mutually exclusive, and the proof system handles IF better)
  IF code = "F(1)" THEN [s EXCEPT !.tab = 0]
  ELSE IF code = "F(2)" THEN [s EXCEPT !.tab = 1]
  ELSE IF code = "F(3)" THEN [s EXCEPT !.tab = 2]
  ELSE IF code = "F(4)" THEN [s EXCEPT !.tab = 3]
  ELSE IF code = "F(5)" THEN [s EXCEPT !.tab = 4]
  ELSE IF code = "Tab" THEN [s EXCEPT !.tab = (s.tab + 1) % 5]
  ELSE IF code = "Char('q')" THEN [s EXCEPT !.quit = TRUE]
  ELSE IF code = "Char('c')" THEN (IF ctrl THEN [s EXCEPT !.quit = TRUE] ELSE s)
  ELSE IF code = "Char('l')" THEN [s EXCEPT !.tog = Flip(s.tog, 1)]
  ELSE IF code = "Char('i')" THEN [s EXCEPT !.tog = Flip(s.tog, 2)]
  ELSE IF code = "Char('h')" THEN [s EXCEPT !.tog = Flip(s.tog, 3)]
  ELSE IF code = "Char('t')" THEN [s EXCEPT !.tog = Flip(s.tog, 4)]
  ELSE IF code = "Char('n')" THEN [s EXCEPT !.tog = Flip(s.tog, 5)]
  ELSE IF code = "Char('-')" /\ OnMap(s) THEN [s EXCEPT !.zoom = s.zoom + 1]
  ELSE IF code = "Char('+')" /\ OnMap(s) THEN [s EXCEPT !.zoom = s.zoom - 1]
  ELSE IF code = "Up" /\ OnMap(s) THEN [s EXCEPT !.clat = <<Base(s.clat, rx.lat) + 5000>>]
  ELSE IF code = "Down" /\ OnMap(s) THEN [s EXCEPT !.clat = <<Base(s.clat, rx.lat) - 5000>>]
  ELSE IF code = "Left" /\ OnMap(s) THEN [s EXCEPT !.clong = <<Base(s.clong, rx.lon) - 30000>>]
  ELSE IF code = "Right" /\ OnMap(s) THEN [s EXCEPT !.clong = <<Base(s.clong, rx.lon) + 30000>>]
  ELSE IF code = "Enter" /\ OnMap(s) THEN [s EXCEPT !.clat = <<>>, !.clong = <<>>, !.zoom = 0]
  ELSE IF code = "Up" /\ s.tab = 2 THEN [s EXCEPT !.sel = IF s.sel = NoSel \/ s.sel = 0 THEN 0 ELSE s.sel - 1]
  ELSE IF code = "Down" /\ s.tab = 2 THEN [s EXCEPT !.sel = IF s.sel = NoSel THEN 0 ELSE s.sel + 1]
  ELSE IF code = "Enter" /\ s.tab = 2
       THEN (IF s.sel = NoSel THEN s
             ELSE IF s.sel >= rows THEN (IF Guards THEN s ELSE [s EXCEPT !.panicked = TRUE])      \* keys().nth(sel).unwrap()
             ELSE IF Det(s.sel) THEN [s EXCEPT !.clat = <<Pos(s.sel).lat>>, !.clong = <<Pos(s.sel).lon>>, !.tab = 0]
             ELSE s)
  ELSE s

\* mouse: kind as the hook prints it; btn = touchscreen button rows <<<<y, h>>, ..>> (empty when not shown),
\* left = left edge of the map area
TabAt(col, row) == IF row < 1 \/ row > 3 THEN -1
                   ELSE IF col >= 3 /\ col <= 6 THEN 0
                   ELSE IF col >= 8 /\ col <= 16 THEN 1
                   ELSE IF col >= 20 /\ col <= 34 THEN 2
                   ELSE IF col >= 36 /\ col <= 42 THEN 3
                   ELSE IF col >= 43 /\ col <= 48 THEN 4
                   ELSE -1
MouseStep(s, kind, col, row, btn, left, rx) ==
  CASE kind = "Down(Left)" ->
         LET s1 == IF TabAt(col, row) >= 0 THEN [s EXCEPT !.tab = TabAt(col, row)] ELSE s
             in(i) == col >= 1 /\ col <= 10 /\ row >= btn[i][1] /\ row <= btn[i][1] + btn[1][2]
         IN IF Len(btn) < 3 THEN s1
            ELSE IF in(1) THEN [s1 EXCEPT !.zoom = s1.zoom + 1]
            ELSE IF in(2) THEN [s1 EXCEPT !.zoom = s1.zoom - 1]
            ELSE IF in(3) THEN [s1 EXCEPT !.clat = <<>>, !.clong = <<>>, !.zoom = 0]
            ELSE s1
    [] kind = "Drag(Left)" ->
         IF ~OnMap(s) \/ row < 3 \/ (left >= 0 /\ col < left) THEN s
         ELSE IF s.drag = <<>> THEN [s EXCEPT !.drag = <<col, row>>]
         ELSE [s EXCEPT !.clat = <<Base(s.clat, rx.lat) + (row - s.drag[2]) * 20000>>,
                        !.clong = <<Base(s.clong, rx.lon) - (col - s.drag[1]) * 20000>>,
                        !.drag = <<col, row>>]
    [] kind \in {"Up(Left)", "Up(Right)", "Up(Middle)"} -> [s EXCEPT !.drag = <<>>]
    [] kind = "ScrollDown" -> [s EXCEPT !.zoom = s.zoom + 1]
    [] kind = "ScrollUp" -> [s EXCEPT !.zoom = s.zoom - 1]
    [] OTHER -> s

\* drawing the Airplanes tab clamps the selection to the rows that exist
DrawStep(s, rows) ==
  IF s.tab = 2 /\ s.sel # NoSel
  THEN IF rows = 0 THEN (IF Guards THEN [s EXCEPT !.sel = NoSel] ELSE [s EXCEPT !.panicked = TRUE])   \* rows_len - 1 underflows
       ELSE IF s.sel > rows - 1 THEN [s EXCEPT !.sel = rows - 1] ELSE s
  ELSE s
=============================================================================
