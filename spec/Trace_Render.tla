---------------------------- MODULE Trace_Render ----------------------------
(* Trace specification for text rendering (C11): `decode` events recorded with their text.  The decoded       *)
(* values the text must show are the contract's (Frame!Expect of the same bytes); the few values on which the  *)
(* contract leaves a choice (12-bit altitude None/0, "no information" codes, interior spaces of a callsign,    *)
(* the rounded heading) are taken from the recording - they are judged by their own properties.               *)
EXTENDS Render, Json, IOUtils

Rec == ndJsonDeserialize(IOEnv.TRACE)
VARIABLE l
vars == <<l>>

Get(r, k, d) == IF k \in DOMAIN r THEN r[k] ELSE d

Judge(i) ==
  LET ev == Rec[i]
      vals == [altv |-> Get(ev.out, "alt", -1), difv |-> Get(ev.out, "dif", 0), asv |-> Get(ev.out, "as", 0),
               cs |-> StrOf(Get(ev.out, "cs", <<>>)), hceil |-> ev.hceil]
      d == IF ev.outcome = "ok" /\ "text" \in DOMAIN ev THEN TextDiff(ev.bytes, ev.text, ev.floats, vals)
           ELSE IF ev.outcome = "ok" THEN {"text_missing"} ELSE {}
      own == Diff(ev.out, ev.bytes)
  IN /\ (IF d = {} THEN TRUE ELSE PrintT(<<"VERDICT", i, Class(ev.bytes), {<<"C11", f>> : f \in d}>>))
     /\ (IF own = {} THEN TRUE ELSE PrintT(<<"VERDICT", i, Class(ev.bytes), {<<Owner(f), f>> : f \in own}>>))

Init == l = 1
Next == l <= Len(Rec) /\ Judge(l) /\ l' = l + 1
Spec == Init /\ [][Next]_vars
Accepted == IF TLCGet("stats").diameter = Len(Rec) + 1 THEN TRUE
            ELSE PrintT(<<"TRACE-NOT-CONSUMED", TLCGet("stats").diameter, Len(Rec)>>) /\ FALSE
=============================================================================
