---------------------------- MODULE Trace_Decode ----------------------------
(***************************************************************************)
(* Trace specification for `decode` events (impl -> spec).  Every event is *)
(* consumed and judged: the contract's answer for the event's bytes is     *)
(* computed by Frame!Expect and compared field by field with the recorded  *)
(* projection; each disagreement is printed as a VERDICT line carrying the *)
(* owning property of every disagreeing field.                             *)
(***************************************************************************)
EXTENDS Frame, Velocity, Json, IOUtils

Rec == ndJsonDeserialize(IOEnv.TRACE)

AllocBound == 4096          \* bytes; C01 "a small constant amount"

VARIABLE l
vars == <<l>>

\* C01: decoding ends in a frame or an error, never a panic; bounded allocation;
\*      every offered operation on a decoded frame completes
Totality(ev) ==
     (IF ev.outcome \in {"ok", "err"} THEN {} ELSE {"outcome"})
  \cup (IF ev.alloc <= AllocBound THEN {} ELSE {"alloc"})
  \cup (IF "ops" \in DOMAIN ev /\ ev.ops # "ok" THEN {"ops"} ELSE {})

\* C07: the library's velocity computation on a decoded type-19 report
Derived(ev) == IF "calc" \in DOMAIN ev THEN CalcDiff(ev.calc, ev.bytes, 32) ELSE {}

OwnerT(f) == IF f \in {"outcome", "alloc", "ops"} THEN "C01"
             ELSE IF f = "tail_influence" THEN "C02"
             ELSE IF f \in {"csome", "chdg", "chdg_negative", "cgs", "cvrate"} THEN "C07" ELSE Owner(f)

\* C04: address text round trip over all 2^24 addresses (counted by the recorder) and sample texts
IcaoDiff(ev) == (IF ev.failures = 0 /\ ev.checked = 16777216 THEN {} ELSE {"icao_roundtrip"})
                \cup (IF \A i \in 1..Len(ev.samples) : ev.samples[i].text = HexN(ev.samples[i].a, 6) THEN {} ELSE {"icao_text"})

Judge(i) ==
  IF Rec[i].ev = "icao"
  THEN LET d == IcaoDiff(Rec[i]) IN IF d = {} THEN TRUE ELSE PrintT(<<"VERDICT", i, "icao", {<<"C04", f>> : f \in d}>>)
  ELSE
  LET ev == Rec[i]
      \* C02: bytes after the frame never influence the result - an event tagged "tail" carries the frame of the event
      \* before it followed by other bytes and must project identically
      tail == IF i > 1 /\ "tag" \in DOMAIN ev /\ ev.tag = "tail" /\ Rec[i - 1].ev = "decode"
                 /\ Len(Rec[i - 1].bytes) <= Len(ev.bytes) /\ SubSeq(ev.bytes, 1, Len(Rec[i - 1].bytes)) = Rec[i - 1].bytes
                 /\ Rec[i - 1].out.ok = 1 /\ ev.out # Rec[i - 1].out
              THEN {"tail_influence"} ELSE {}
      d  == Diff(ev.out, ev.bytes) \cup Totality(ev) \cup Derived(ev) \cup tail
  IN IF d = {} THEN TRUE
     ELSE PrintT(<<"VERDICT", i, Class(ev.bytes), {<<OwnerT(f), f>> : f \in d}>>)

Init == l = 1
Next == l <= Len(Rec) /\ Judge(l) /\ l' = l + 1
Spec == Init /\ [][Next]_vars

\* the whole recording was consumed (a truncated or malformed log is a tool error)
Accepted == IF TLCGet("stats").diameter = Len(Rec) + 1 THEN TRUE
            ELSE PrintT(<<"TRACE-NOT-CONSUMED", TLCGet("stats").diameter, Len(Rec)>>) /\ FALSE
=============================================================================
