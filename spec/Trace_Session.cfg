SPECIFICATION Spec
CONSTANTS
  RestoreOnWaitQuit <- TRestore
POSTCONDITION Accepted
CHECK_DEADLOCK FALSE
