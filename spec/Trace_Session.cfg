SPECIFICATION Spec
CONSTANTS
  RestoreOnWaitQuit <- TRestore
  ClearOnDisconnect <- TRestore
POSTCONDITION Accepted
CHECK_DEADLOCK FALSE
