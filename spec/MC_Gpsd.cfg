SPECIFICATION FairSpec
CONSTANTS
  Fixes <- MCFixes
  Locked <- MCLocked
INVARIANT NoTornPair
INVARIANT MutualExclusion
PROPERTY NeverBackwards
PROPERTY LastFixAdopted
CHECK_DEADLOCK FALSE
