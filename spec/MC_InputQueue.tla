---------------------------- MODULE MC_InputQueue ---------------------------
EXTENDS InputQueue, IOUtils
MCChunk == 8
MCBurst == atoi(IOEnv.BURST)
MCEdge == IOEnv.EDGE = "1"
=============================================================================
