-------------------------------- MODULE Crc ---------------------------------
(***************************************************************************)
(* Mode S parity.  The checksum reported with an n-byte frame is the       *)
(* remainder of the frame, read as a polynomial over GF(2) with the first  *)
(* transmitted bit as the highest coefficient, modulo the generator        *)
(*   G(x) = x^24+x^23+...+x^10+x^3+1  =  0x1FFF409.                        *)
(* Because the last 24 bits have degree < 24 this equals                   *)
(*   (leading n-24 bits * x^24 mod G)  XOR  (last 24 bits),                *)
(* the form used in Annex 10.  The division is done bit by bit.            *)
(***************************************************************************)
EXTENDS Bits, Bitwise

P24   == 16777216          \* x^24
GLow  == 16774153          \* 0xFFF409 : G without its leading term

\* one step of long division: shift the next bit in, subtract G if degree 24 is reached
Step(r, b) == LET s == 2 * r + b IN IF s >= P24 THEN (s - P24) ^^ GLow ELSE s

RECURSIVE DivAcc(_, _, _, _)
DivAcc(bytes, i, nbits, r) ==
  IF i = nbits THEN r ELSE DivAcc(bytes, i + 1, nbits, Step(r, BitAt(bytes, i)))

\* remainder of the first n bytes modulo G
Checksum(bytes, n) == DivAcc(bytes, 0, 8 * n, 0)

\* remainder of a bit sequence (used by the lemmas)
RECURSIVE DivBits(_, _, _)
DivBits(bits, i, r) == IF i > Len(bits) THEN r ELSE DivBits(bits, i + 1, Step(r, bits[i]))
Rem(bits) == DivBits(bits, 1, 0)

\* sender side: body is the frame without its last three bytes; the parity field is
\* (body * x^24 mod G) XOR overlay, overlay = 0 (DF17/18), interrogator code (DF11) or address (AP formats)
ParityOf(body) == Checksum(body \o <<0, 0, 0>>, Len(body) + 3)
Int24Bytes(v) == << v \div 65536, (v \div 256) % 256, v % 256 >>
Encode(body, overlay) == body \o Int24Bytes(ParityOf(body) ^^ overlay)

\* self-tests: the README frame is a clean DF17; address recovery on a DF4-shaped body
ASSUME Checksum(<<141,162,193,189,88,123,162,173,179,23,153,203,128,43>>, 14) = 0
ASSUME Checksum(Encode(<<32, 0, 23, 24>>, 11259375), 7) = 11259375
ASSUME Checksum(Encode(<<141,162,193,189,88,123,162,173,179,23,153>>, 0), 14) = 0
=============================================================================
