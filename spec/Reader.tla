------------------------------- MODULE Reader -------------------------------
(***************************************************************************)
(* Level I model of decoding from a seekable reader (C19, C01, C02).       *)
(*                                                                         *)
(* The structural parse of a frame is a *program*: a sequence of           *)
(*   [op |-> "r", n |-> k]   read exactly k bytes (deku's read_exact loop) *)
(*   [op |-> "s", n |-> k]   seek back k bytes (deku re-reads an enum id   *)
(*                           that was matched by a pattern)                *)
(* followed by read_crc, which pulls the rest of the frame if the parse    *)
(* stopped short.  Programs are taken from reference runs of the real      *)
(* decoder (one per frame shape); what is modelled here is everything      *)
(* between the program and the bytes: the inner reader, which may return   *)
(* fewer bytes than asked for or fail with a transient `Interrupted`, the  *)
(* retry loop, and the caching wrapper that rebuilds the checksum window.  *)
(*                                                                         *)
(* Wrapper = "position": the wrapper tracks its offset and appends only    *)
(*           bytes beyond the end of the cache (the code after the fix).   *)
(* Wrapper = "flag":     the original wrapper: "skip caching the first     *)
(*           read after a seek", the flag being cleared by any read call - *)
(*           kept as a named deviation; TLC shows it violates WindowCorrect*)
(*           for an Interrupted right after a seek.                        *)
(***************************************************************************)
EXTENDS Integers, Sequences

CONSTANTS Progs,        \* sequence of [prog, len, flen]: program, input length, frame length
          Wrapper, MaxEintr, MaxShort

VARIABLES pid,          \* pid = [i, prog, len, flen]: the chosen program (constant during a behaviour)
          pc, pos, cache, cpos, js, need, eintr, shorts, res, sched
vars == <<pid, pc, pos, cache, cpos, js, need, eintr, shorts, res, sched>>

Prog == pid.prog
N == pid.len
FrameLen == pid.flen

Init == /\ pid \in {[i |-> i, prog |-> Progs[i].prog, len |-> Progs[i].len, flen |-> Progs[i].flen] : i \in 1..Len(Progs)}
        /\ pc = 1 /\ pos = 0 /\ cache = <<>> /\ cpos = 0 /\ js = FALSE
        /\ need = 0 /\ eintr = 0 /\ shorts = 0 /\ res = "run" /\ sched = <<>>

\* the caching wrapper sees k bytes starting at input offset pos (bytes are named by their index 1..N)
Cached(k) ==
  LET new == [i \in 1..k |-> pos + i] IN
  IF Wrapper = "flag" THEN (IF js THEN cache ELSE cache \o new)
  ELSE IF cpos + k > Len(cache) /\ cpos <= Len(cache)
       THEN cache \o SubSeq(new, Len(cache) - cpos + 1, k)
       ELSE cache

\* one call of the inner reader made by a read_exact loop
InnerRead ==
  /\ res = "run" /\ need > 0
  /\ \/ /\ eintr < MaxEintr                                    \* transient error: nothing is consumed
        /\ eintr' = eintr + 1 /\ sched' = Append(sched, 0)
        /\ js' = (IF Wrapper = "flag" THEN FALSE ELSE js)       \* the flag wrapper clears its flag on *any* call
        /\ UNCHANGED <<pid, pc, pos, cache, cpos, need, shorts, res>>
     \/ /\ pos = N                                              \* end of input inside the frame: Ok(0), read_exact fails
        /\ res' = "err" /\ UNCHANGED <<pid, pc, pos, cache, cpos, js, need, eintr, shorts, sched>>
     \/ /\ pos < N
        /\ \E k \in 1..need :
             /\ k <= N - pos
             /\ (k < need => shorts < MaxShort)
             /\ shorts' = IF k < need THEN shorts + 1 ELSE shorts
             /\ pos' = pos + k /\ need' = need - k /\ cache' = Cached(k) /\ cpos' = cpos + k /\ js' = FALSE
             /\ sched' = Append(sched, k)
        /\ UNCHANGED <<pid, pc, eintr, res>>

\* start the next operation of the program
StartOp ==
  /\ res = "run" /\ need = 0 /\ pc <= Len(Prog) /\ pc' = pc + 1
  /\ LET o == Prog[pc] IN
     IF o.op = "s" THEN /\ pos' = pos - o.n /\ cpos' = cpos - o.n /\ js' = TRUE
                        /\ UNCHANGED <<pid, cache, need, eintr, shorts, res, sched>>
     ELSE /\ need' = o.n /\ UNCHANGED <<pid, pos, cache, cpos, js, eintr, shorts, res, sched>>

\* read_crc: pull the rest of the frame through the wrapper, then check the window length
Finish ==
  /\ res = "run" /\ need = 0 /\ pc = Len(Prog) + 1
  /\ IF Len(cache) < FrameLen
     THEN /\ need' = FrameLen - Len(cache) /\ pc' = pc /\ res' = res       \* one more read_exact
     ELSE /\ res' = "ok" /\ pc' = pc + 1 /\ need' = need
  /\ UNCHANGED <<pid, pos, cache, cpos, js, eintr, shorts, sched>>

Next == InnerRead \/ StartOp \/ Finish
Spec == Init /\ [][Next]_vars

\* ---- Level A -------------------------------------------------------------------------------
\* the checksum window is exactly the first FrameLen bytes of the input, whatever the schedule
WindowCorrect == res = "ok" => SubSeq(cache, 1, FrameLen) = [i \in 1..FrameLen |-> i]
\* a complete buffer is accepted, a short one rejected
OkIffLongEnough == (res = "ok" => N >= FrameLen) /\ (res = "err" => N < FrameLen)
\* no read beyond the frame (bytes after the frame are never consumed)
NoOverread == pos <= (IF N < FrameLen THEN N ELSE FrameLen)
\* termination: the number of inner calls is bounded by the bytes read plus the transient errors
Bounded == Len(sched) <= FrameLen + 8 + MaxEintr
LevelA == WindowCorrect /\ OkIffLongEnough /\ NoOverread /\ Bounded
\* liveness: whatever the schedule of short reads and (finitely many) interruptions, the decode comes to an end
FairSpec == Spec /\ WF_vars(Next)
Terminates == <>(res # "run")
=============================================================================
