----------------------------- MODULE MC_Tracker -----------------------------
(***************************************************************************)
(* Bounded instance of Tracker over abstract places (Step D for C12-C15).  *)
(*                                                                         *)
(* Places: 1 = A (near the receiver), 2 = A2 (a few km from A),            *)
(*         3 = J (in range, more than 100 km from A), 4 = F (out of range),*)
(*         5 = G (what an even report from A/A2 and an odd report from J   *)
(*               decode to: in range, more than 100 km from everything)    *)
(* Pairing two reports from one place gives that place; A and A2 are       *)
(* within the 3 NM the standard allows, the pairing is the odd (latest)    *)
(* one's place; other mixtures give garbage (G) or nothing.                *)
(***************************************************************************)
EXTENDS Tracker, FiniteSets, Json

CONSTANTS NAddr, MaxSteps, MaxT, PrintReplay

Addr == 1..NAddr
None5 == [some |-> 0, lat |-> 0, lon |-> 0]
Place(p) == [some |-> 1, lat |-> p, lon |-> 0]

CandPlace(e, o) == IF e = o THEN o
                   ELSE IF {e, o} = {1, 2} THEN o
                   ELSE IF e \in {1, 2} /\ o = 3 THEN 5
                   ELSE 0
MCCand(e, o) == LET c == CandPlace(e.lat, o.lat) IN IF c = 0 THEN None5 ELSE Place(c)
MCDist(c) == [some |-> 1, m |-> 10 * c.lat]
MCInRange(c) == c.lat # 4
MCJumpOK(p, c) == p.lat = c.lat \/ {p.lat, c.lat} = {1, 2}

AltOf(p) == CASE p = 1 -> 1000 [] p = 2 -> -1 [] p = 3 -> 2000 [] OTHER -> 3000
Rep(p) == [some |-> 1, lat |-> p, lon |-> 0, alt |-> AltOf(p)]

\* the frame alphabet
FramesOf(a) ==
  << [kind |-> "ident", addr |-> a, cs |-> [some |-> 1, s |-> <<65>>], vel |-> NoVel, par |-> 0, rep |-> NoRep],
     [kind |-> "ident", addr |-> a, cs |-> [some |-> 1, s |-> <<66>>], vel |-> NoVel, par |-> 0, rep |-> NoRep],
     [kind |-> "vel", addr |-> a, cs |-> NoCS, vel |-> [some |-> 1, h |-> 90, g |-> 100, v |-> 64], par |-> 0, rep |-> NoRep],
     [kind |-> "vel", addr |-> a, cs |-> NoCS, vel |-> [some |-> 1, h |-> 270, g |-> 200, v |-> -64], par |-> 0, rep |-> NoRep],
     [kind |-> "vel", addr |-> a, cs |-> NoCS, vel |-> NoVel, par |-> 0, rep |-> NoRep],               \* "no information"
     [kind |-> "es", addr |-> a, cs |-> NoCS, vel |-> NoVel, par |-> 0, rep |-> NoRep] >>
  \o [i \in 1..8 |-> [kind |-> "pos", addr |-> a, cs |-> NoCS, vel |-> NoVel,
                      par |-> (i - 1) % 2, rep |-> Rep(((i - 1) \div 2) + 1)]]
RECURSIVE AllFrames(_)
AllFrames(a) == IF a = 0 THEN << [kind |-> "none", addr |-> 0, cs |-> NoCS, vel |-> NoVel, par |-> 0, rep |-> NoRep] >>
                ELSE AllFrames(a - 1) \o FramesOf(a)
Fr == AllFrames(NAddr)
NF == Len(Fr)

VARIABLES planes, heard, now,           \* the tracker and the clock
          cnt, sup, lastcs, lastvel,    \* history: frames since (re)added, superseded publications, latest carried attributes
          last,                         \* the last action: [op, i, added, pre] (pre = planes before it)
          hist, steps
vars == <<planes, heard, now, cnt, sup, lastcs, lastvel, last, hist, steps>>
View == <<planes, heard, now, cnt, sup, lastcs, lastvel, last, steps>>

Init == /\ planes = << >> /\ heard = << >> /\ now = 0
        /\ cnt = << >> /\ sup = << >> /\ lastcs = << >> /\ lastvel = << >>
        /\ last = [op |-> "init", i |-> 0, added |-> FALSE, pre |-> << >>]
        /\ hist = <<>> /\ steps = 0

Upd(fn, a, v) == IF a \in DOMAIN fn THEN [fn EXCEPT ![a] = v] ELSE fn @@ (a :> v)
Get(fn, a, d) == IF a \in DOMAIN fn THEN fn[a] ELSE d

DoFrame(i) ==
  LET f == Fr[i]
      p2 == FrameStep(planes, f, MCCand, MCDist, MCInRange, MCJumpOK)
      added == Added(planes, f)
  IN /\ steps < MaxSteps
     /\ planes' = p2
     /\ last' = [op |-> "frame", i |-> i, added |-> added, pre |-> planes]
     /\ hist' = Append(hist, i) /\ steps' = steps + 1 /\ now' = now
     /\ IF Tracks(f)
        THEN LET a == f.addr
                 old == Get(planes, a, Fresh)
                 new == p2[a]
             IN /\ heard' = Upd(heard, a, now)
                /\ cnt' = Upd(cnt, a, Get(cnt, a, 0) + 1)
                \* a position report on a record with a published position re-pairs: it publishes (superseding) or clears
                /\ sup' = Upd(sup, a, IF f.kind = "pos" /\ old.pos.some = 1 /\ new.pos.some = 1
                                      THEN Append(Get(sup, a, <<>>), old.pos) ELSE Get(sup, a, <<>>))
                /\ lastcs' = Upd(lastcs, a, IF f.kind = "ident" THEN f.cs ELSE Get(lastcs, a, NoCS))
                /\ lastvel' = Upd(lastvel, a, IF f.kind = "vel" /\ f.vel.some = 1 THEN f.vel ELSE Get(lastvel, a, NoVel))
        ELSE UNCHANGED <<heard, cnt, sup, lastcs, lastvel>>

Tick == /\ steps < MaxSteps /\ now' = now + 1 /\ steps' = steps + 1
        /\ last' = [op |-> "tick", i |-> 1, added |-> FALSE, pre |-> planes]
        /\ hist' = Append(hist, NF + 1)
        /\ UNCHANGED <<planes, heard, cnt, sup, lastcs, lastvel>>

DoPrune(T) ==
  LET keep == Kept(planes, heard, now, T) IN
  /\ steps < MaxSteps /\ steps' = steps + 1 /\ now' = now
  /\ planes' = PruneStep(planes, heard, now, T)
  /\ heard' = Restrict(heard, keep) /\ cnt' = Restrict(cnt, keep) /\ sup' = Restrict(sup, keep)
  /\ lastcs' = Restrict(lastcs, keep) /\ lastvel' = Restrict(lastvel, keep)
  /\ last' = [op |-> "prune", i |-> T, added |-> FALSE, pre |-> planes]
  /\ hist' = Append(hist, NF + 2 + T)

Next == (\E i \in 1..NF : DoFrame(i)) \/ Tick \/ (\E T \in 0..MaxT : DoPrune(T))
Spec == Init /\ [][Next]_vars

\* ---- C12 -----------------------------------------------------------------------------------
CountExact == \A a \in DOMAIN planes : planes[a].n = cnt[a] /\ planes[a].n >= 1
AddedIffNew == last.op = "frame" => (last.added <=> (Tracks(Fr[last.i]) /\ Fr[last.i].addr \notin DOMAIN last.pre))
OtherFormatsChangeNothing == (last.op = "frame" /\ ~Tracks(Fr[last.i])) => planes = last.pre
OnlyExpiryShrinks == last.op # "prune" => DOMAIN last.pre \subseteq DOMAIN planes
Isolation == last.op = "frame" => \A b \in DOMAIN last.pre : (b # Fr[last.i].addr => planes[b] = last.pre[b])
\* ---- C13 -----------------------------------------------------------------------------------
Plausible == \A a \in DOMAIN planes : LET r == planes[a] IN
               /\ (r.pos.some = 1 => /\ r.even.some = 1 /\ r.odd.some = 1
                                     /\ r.pos = MCCand(r.even, r.odd) /\ MCInRange(r.pos) /\ r.dist = MCDist(r.pos))
               /\ ((r.even.some = 1 /\ r.odd.some = 1) => r.pos.some = 1)        \* an implausible pair never stays stored
PublishedWithinJump ==
  (last.op = "frame" /\ Tracks(Fr[last.i]) /\ Fr[last.i].addr \in DOMAIN last.pre) =>
     LET a == Fr[last.i].addr  old == last.pre[a]  new == planes[a]
     IN (old.pos.some = 1 /\ new.pos.some = 1) => MCJumpOK(old.pos, new.pos)
ClearedCompletely == \A a \in DOMAIN planes : LET r == planes[a] IN
                       r.pos.some = 0 => (r.dist.some = 0 /\ ~(r.even.some = 1 /\ r.odd.some = 1))
\* ---- C14 -----------------------------------------------------------------------------------
LatestWins == \A a \in DOMAIN planes : planes[a].cs = lastcs[a] /\ planes[a].vel = lastvel[a]
DistIffPos == \A a \in DOMAIN planes : planes[a].dist.some = planes[a].pos.some
TrackIsSuperseded == \A a \in DOMAIN planes : planes[a].track = sup[a]
\* ---- C15 -----------------------------------------------------------------------------------
PruneRemovesExactly == last.op = "prune" => \A a \in DOMAIN last.pre : (a \in DOMAIN planes) <=> (a \in DOMAIN heard /\ now - heard[a] < last.i)
ReaddedIsFresh == (last.op = "frame" /\ last.added) => planes[Fr[last.i].addr].n = 1 /\ planes[Fr[last.i].addr].track = <<>>

Inv == /\ CountExact /\ AddedIffNew /\ OtherFormatsChangeNothing /\ OnlyExpiryShrinks /\ Isolation
       /\ Plausible /\ PublishedWithinJump /\ ClearedCompletely
       /\ LatestWins /\ DistIffPos /\ TrackIsSuperseded
       /\ PruneRemovesExactly /\ ReaddedIsFresh
       /\ (last.op = "prune" => \A a \in DOMAIN planes : planes[a] = last.pre[a])

\* one history per distinct state (TLC evaluates an invariant once per new distinct state)
Replay == (PrintReplay /\ steps = MaxSteps) => PrintT(<<"REPLAY", hist>>)
Constraint == steps <= MaxSteps

\* coverage witnesses (anti-vacuity): each must be *violated* when checked as an invariant
NeverPublishes == \A a \in DOMAIN planes : planes[a].pos.some = 0
NeverSupersedes == \A a \in DOMAIN planes : planes[a].track = <<>>
=============================================================================
