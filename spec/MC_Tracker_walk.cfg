SPECIFICATION Spec
CONSTANTS
  NAddr = 3
  MaxSteps = 40
  MaxT = 2
  PrintReplay = FALSE
INVARIANT Inv
INVARIANT Replay
VIEW View
CHECK_DEADLOCK FALSE
