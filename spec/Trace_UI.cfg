SPECIFICATION Spec
CONSTANTS
  Guards <- TGuards
POSTCONDITION Accepted
CHECK_DEADLOCK FALSE
