----------------------------- MODULE InputQueue -----------------------------
(***************************************************************************)
(* Why quit can be delayed (open finding F1, C17): the path from the       *)
(* terminal to radar's key handler, as the terminal library implements it. *)
(*                                                                         *)
(* Bytes typed or pasted queue up in the terminal (`tty`).  The library's  *)
(* event source waits for a READINESS notification of the descriptor, then *)
(* reads at most Chunk (1024) bytes, parses them into events and hands     *)
(* them out one by one; radar's loop drains events until the source says   *)
(* "nothing within 10 ms".  The notification is edge-triggered: it is      *)
(* raised when bytes ARRIVE, not while bytes REMAIN.                       *)
(*                                                                         *)
(* EdgeTriggered = TRUE : the library as pinned (crossterm 0.27 / 0.28,    *)
(*   mio source).  TLC: a burst larger than Chunk is not drained unless    *)
(*   more input arrives (Drained fails) - the remainder, and a quit key in *)
(*   it, waits for the operator's next key.                                *)
(* EdgeTriggered = FALSE: a source that is notified while bytes remain:    *)
(*   every burst is drained.                                               *)
(***************************************************************************)
EXTENDS Integers

CONSTANTS
  \* @type: Int;
  Chunk,           \* bytes read per notification
  \* @type: Int;
  Burst,           \* bytes the operator's burst puts into the terminal at once
  \* @type: Bool;
  EdgeTriggered

VARIABLES
  \* @type: Int;
  tty,             \* bytes waiting in the terminal
  \* @type: Bool;
  ready,           \* a readiness notification is pending
  \* @type: Int;
  parsed,          \* bytes read and parsed, whose events have not been handed out yet
  \* @type: Int;
  handled,         \* bytes whose events radar has handled
  \* @type: Bool;
  sent             \* the burst has been typed
vars == <<tty, ready, parsed, handled, sent>>

Init == tty = 0 /\ ready = FALSE /\ parsed = 0 /\ handled = 0 /\ sent = FALSE

\* the operator's burst arrives: one notification
Type == ~sent /\ sent' = TRUE /\ tty' = tty + Burst /\ ready' = TRUE /\ UNCHANGED <<parsed, handled>>
\* radar's drain loop asks for the next event
HandOut == parsed > 0 /\ parsed' = parsed - 1 /\ handled' = handled + 1 /\ UNCHANGED <<tty, ready, sent>>
Read == /\ parsed = 0 /\ ready /\ tty > 0
        /\ LET n == IF tty < Chunk THEN tty ELSE Chunk IN
           /\ parsed' = n /\ tty' = tty - n
           /\ ready' = (IF EdgeTriggered THEN FALSE ELSE tty - n > 0)
        /\ UNCHANGED <<handled, sent>>
Next == Type \/ HandOut \/ Read
Spec == Init /\ [][Next]_vars
FairSpec == Spec /\ WF_vars(Next)

TypeOK == tty \in 0..Burst /\ parsed \in 0..Chunk /\ handled \in 0..Burst
\* everything typed is eventually handled - without the operator having to type anything else
Drained == <>[](sent /\ handled = Burst)
\* what is left waiting when nothing more can happen
Stuck == sent /\ parsed = 0 /\ ~ready /\ tty > 0
NeverStuck == ~Stuck

\* ---- unbounded (Apalache): for ANY chunk size and ANY burst size a source notified while bytes remain never gets stuck.
\* IndInv is inductive (Init => IndInv; IndInv /\ Next => IndInv') and implies NeverStuck.
CInitLevel == Chunk \in Int /\ Burst \in Int /\ EdgeTriggered \in {FALSE} /\ Chunk > 0 /\ Burst > 0
IndInv == /\ tty >= 0 /\ parsed >= 0 /\ handled >= 0
          /\ tty + parsed + handled = (IF sent THEN Burst ELSE 0)
          /\ ready = (tty > 0)
IndInit == tty \in Int /\ ready \in BOOLEAN /\ parsed \in Int /\ handled \in Int /\ sent \in BOOLEAN /\ IndInv
=============================================================================
