SPECIFICATION FairSpec
CONSTANTS
  Chunk <- MCChunk
  Burst <- MCBurst
  EdgeTriggered <- MCEdge
INVARIANT TypeOK
INVARIANT NeverStuck
PROPERTY Drained
CHECK_DEADLOCK FALSE
