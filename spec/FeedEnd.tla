------------------------------- MODULE FeedEnd -------------------------------
(***************************************************************************)
(* The line loop (FeedCore) with a server that goes away.                  *)
(*                                                                         *)
(* The server may close the connection at any point of the stream - after  *)
(* a complete line, in the middle of one, before anything was sent.  What  *)
(* was sent before the close still arrives; after it the client's read     *)
(* reports the end of the stream (0 bytes).                                *)
(*                                                                         *)
(* Client = "1090":  the loop `continue`s on a read of 0 bytes - the       *)
(*                   client stays, polling a closed stream for good        *)
(*                   (named deviation SpinsOnEof: not a listed property,   *)
(*                   modelled because the code does it);                   *)
(* Client = "radar": a read of 0 bytes is the disconnect - the loop is     *)
(*                   left (RadarSession takes over: exit or reconnect).    *)
(*                                                                         *)
(* An unfinished last line stays in the buffer and is never processed by   *)
(* either client: it is not a complete line of the feed.                   *)
(***************************************************************************)
EXTENDS Feed

CONSTANT Client
VARIABLES conn,      \* "open" | "closed": the server's end of the connection
          fate       \* "running" | "polling" (1090 after the end of the stream) | "left" (radar)
evars == <<vars, conn, fate>>

EInit == Init /\ conn = "open" /\ fate = "running"

\* the server goes away; nothing more will be sent
Close == /\ conn = "open" /\ ~crashed /\ ClientBlocked
         /\ conn' = "closed" /\ UNCHANGED <<vars, fate>>

\* once closed, nothing that is in flight can be told from a long gap: what is there is handed over, then the end
ESend == conn = "open" /\ Send /\ UNCHANGED <<conn, fate>>
ERead == /\ fate # "left" /\ ReadLine /\ UNCHANGED <<conn, fate>>
         /\ (conn = "closed" => avail # <<>>)             \* (with the stream closed the timeout branch needs no long gap)
EReadClosed ==                                             \* closed, bytes without a newline left: they are appended, the call returns them
  /\ conn = "closed" /\ fate # "left" /\ pc = "read" /\ ~crashed /\ avail # <<>> /\ NLIdx(avail) = 0
  /\ avail' = <<>> /\ input' = input \o avail
  /\ UNCHANGED <<sent, gap, processed, crashed, pc, sched, conn, fate>>
Eof == /\ conn = "closed" /\ fate = "running" /\ pc = "read" /\ ~crashed /\ avail = <<>>
       /\ fate' = (IF Client = "1090" THEN "polling" ELSE "left")
       /\ UNCHANGED <<vars, conn>>
EProcess == fate # "left" /\ Process /\ UNCHANGED <<conn, fate>>

ENext == ESend \/ Close \/ ERead \/ EReadClosed \/ Eof \/ EProcess
ESpec == EInit /\ [][ENext]_evars
EFairSpec == ESpec /\ WF_evars(ERead) /\ WF_evars(EReadClosed) /\ WF_evars(EProcess) /\ WF_evars(Eof)

\* ---- Level A, with a server that may go away ---------------------------------------------------
SentPrefix == SubSeq(Stream, 1, sent)
ExpectedOf(s) == SelectSeq(Complete(s), LAMBDA ln : Len(ln) >= 3 /\ ~HasStray(ln))
\* never anything but the well-formed complete lines of what was sent, in order, once
OnlySentLines == IsPrefix(processed, ExpectedOf(SentPrefix))
\* when the end of the stream has been seen, every complete line that was sent has been processed: a client that
\* leaves (or starts polling) has not left a line behind
NothingLeftBehind == (fate # "running" /\ ~crashed) => processed = ExpectedOf(SentPrefix)
\* the unfinished rest is still in the buffer, untouched (radar's session clears it on disconnect: RadarSession)
RestKept == (fate # "running" /\ ~crashed) => input = SubSeq(SentPrefix, Len(SentPrefix) - Len(input) + 1, Len(SentPrefix)) /\ NLIdx(input) = 0
ELevelA == NoCrash /\ OnlySentLines /\ NothingLeftBehind /\ RestKept
\* the end of the stream is noticed
EndNoticed == (conn = "closed") ~> (fate # "running" \/ crashed)
\* ... and 1090 never leaves by itself (SpinsOnEof), radar always does
Stays1090 == Client = "1090" => fate # "left"
=============================================================================
