SPECIFICATION TraceSpec
CONSTANTS
  Fixes <- TFixes
  Locked <- TLocked
CONSTRAINT Track
POSTCONDITION Accepted
CHECK_DEADLOCK FALSE
