SPECIFICATION Spec
CONSTANTS
  NAddr = 2
  MaxSteps = 5
  MaxT = 2
  PrintReplay = FALSE
INVARIANT Inv
INVARIANT Replay
VIEW View
CHECK_DEADLOCK FALSE
