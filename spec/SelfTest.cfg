SPECIFICATION Spec
