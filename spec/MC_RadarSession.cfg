SPECIFICATION FairSpec
CONSTANTS
  RestoreOnWaitQuit <- MCRestore
INVARIANT Inv
PROPERTY KeepsAircraft
PROPERTY RunsUntilAsked
PROPERTY QuitLeadsToExit
PROPERTY ClosedFeedLeadsToExit
PROPERTY Reconnects
CHECK_DEADLOCK FALSE
