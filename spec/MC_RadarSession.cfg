SPECIFICATION FairSpec
CONSTANTS
  RestoreOnWaitQuit <- MCRestore
  ClearOnDisconnect <- MCClear
INVARIANT Inv
PROPERTY KeepsAircraft
PROPERTY RunsUntilAsked
PROPERTY QuitLeadsToExit
PROPERTY ClosedFeedLeadsToExit
PROPERTY Reconnects
CHECK_DEADLOCK FALSE
