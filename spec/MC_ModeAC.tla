------------------------------ MODULE MC_ModeAC -----------------------------
(* Step D for C06 / C09: properties of the Mode A/C code tables themselves (ModeAC.tla), one state per 13-bit code.  *)
(*  - Gillham: the legal codes (M = 0, Q = 0, C1 C2 C4 in the five-cycle) map one-to-one onto -1200, -1100, ..,     *)
(*    126700 ft, and codes of adjacent altitudes differ in exactly one bit (the defining Gray property).            *)
(*  - Q-bit altitudes: 25 ft steps from -1000 ft, one-to-one on the 11 bits other than M and Q.                      *)
(*  - Identity: the 12 bits other than X map one-to-one onto four octal digits; X never matters.                     *)
EXTENDS ModeAC, FiniteSets, TLC

Codes == 0..8191
Legal == {c \in Codes : X(c) = 0 /\ D1(c) = 0 /\ Gillham(c) # Illegal}
Alts == {-1200 + 100 * k : k \in 0..1279}
CodeOf == [a \in Alts |-> CHOOSE c \in Legal : Gillham(c) = a]
Popcount13(v) == Cardinality({i \in 1..13 : Bit(v, i) = 1})
XorBits(a, b) == Cardinality({i \in 1..13 : Bit(a, i) # Bit(b, i)})

ASSUME Cardinality(Legal) = 1280
ASSUME {Gillham(c) : c \in Legal} = Alts
ASSUME \A a \in Alts : (a + 100 \in Alts) => XorBits(CodeOf[a], CodeOf[a + 100]) = 1
ASSUME Cardinality({QN(c) : c \in {c \in Codes : X(c) = 0 /\ D1(c) = 1}}) = 2048
ASSUME Cardinality({Identity(c) : c \in {c \in Codes : X(c) = 0}}) = 4096
ASSUME \A c \in {c \in Codes : X(c) = 0} : Identity(c) = Identity(c + 64)                      \* X is ignored
ASSUME \A c \in Codes : LET i == Identity(c) IN (i \div 4096) % 16 <= 7 /\ (i \div 256) % 16 <= 7 /\ (i \div 16) % 16 <= 7 /\ i % 16 <= 7

VARIABLE c
Init == c = 0
Next == c < 8191 /\ c' = c + 1
Spec == Init /\ [][Next]_c
\* every code decodes to "no altitude" or to a positive altitude that fits the result type; the 12-bit field agrees
RangeOK == AC13(c) >= 0 /\ AC13(c) <= 65535 /\ (AC13(c) > 0 => AC13(c) = AltFeet(c))
            /\ (c < 4096 => AC12(c) = AC13(Insert12(c)))
=============================================================================
