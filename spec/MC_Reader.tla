------------------------------ MODULE MC_Reader -----------------------------
(* Bounded instance of Reader: programs observed from reference runs of the real decoder (ndjson file  *)
(* named by the environment variable PROGS), all schedules with at most MCMaxShort short reads and     *)
(* MCMaxEintr transient errors per decode.  Each complete behaviour is printed as a REPLAY line.       *)
EXTENDS Reader, Json, IOUtils, TLC

MCProgs == ndJsonDeserialize(IOEnv.PROGS)
MCWrapper == IOEnv.WRAPPER
MCMaxEintr == atoi(IOEnv.MAXEINTR)
MCMaxShort == atoi(IOEnv.MAXSHORT)

Replay == (res # "run") => PrintT(<<"REPLAY", pid.i, res, sched>>)
=============================================================================
