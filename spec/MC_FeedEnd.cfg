SPECIFICATION EFairSpec
CONSTANTS
  Stream <- MCStream
  KeepPartial <- MCKeep
  GuardShort <- MCGuard
  TextBuffer <- MCText
  MaxSegs <- MCMaxSegs
  Client <- MCClient
INVARIANT ELevelA
INVARIANT Stays1090
PROPERTY EndNoticed
CHECK_DEADLOCK FALSE
