------------------------------ MODULE DekuBits ------------------------------
(***************************************************************************)
(* Level I for the decoder (C02, C04, C10 mechanism): deku's bit reader as *)
(* a machine, and the read programs the derive macro generates from the    *)
(* library's type definitions, transcribed by hand for every frame shape.  *)
(*                                                                         *)
(* The machine (deku 0.18 `Reader`): a byte position in the inner reader,  *)
(* the left-over bits of the last byte read, and `last` - the number of    *)
(* bits read since the innermost enum started reading (every enum read     *)
(* resets it, nothing else does).                                          *)
(*   b(n)  read_bits(n): served from the left-over bits; what is missing   *)
(*         is fetched with ONE read_exact of ceil(missing / 8) bytes       *)
(*   B     a u8 through read_bytes: one read_exact(1) when nothing is left *)
(*         over, otherwise read_bits(8)                                    *)
(*   W(n)  an n-byte integer through read_bytes                            *)
(*   E     an enum starts reading its identifier: last := 0                *)
(*   S     seek_last_read - a variant selected by an identifier *pattern*  *)
(*         of an enum that reads its own identifier re-reads it into its   *)
(*         first field: seek back ceil(last / 8) whole bytes, drop the     *)
(*         left-over bits                                                  *)
(*                                                                         *)
(* Level A (ASSUMEs, evaluated by TLC): for every shape the named fields   *)
(* are delivered from exactly the bits the frame grammar (Layout, Frame)   *)
(* assigns to them, and the program consumes exactly the frame.            *)
(* Binding: the byte-level read/seek calls the machine predicts for a      *)
(* shape are compared with the calls the real decoder makes on a frame of  *)
(* that shape (recorded by `hx reader`); a difference is MODEL-DRIFT.      *)
(*                                                                         *)
(* Named deviations (the code before its repairs) - each must break        *)
(* Level A here as it did in the code:                                     *)
(*   D1  Capability as a derived enum whose Reserved(u8) variant is        *)
(*       selected by a pattern: S in the middle of a byte                  *)
(*   D2  opaque ME payloads without their trailing padding                 *)
(*   D4  SurfacePosition read through the derived variant reader (S)       *)
(*       although the struct does not start with the type code             *)
(***************************************************************************)
EXTENDS Layout

b(n, name) == <<"b", n, name>>
B(name) == <<"B", 1, name>>
W(n, name) == <<"W", n, name>>
\* padding (pad_bits_before/after, pad_bytes_before): whole bytes are skipped through read_bytes, anything else through read_bits
P(n) == IF n % 8 = 0 THEN <<"W", n \div 8, "-">> ELSE <<"b", n, "-">>
E == <<"E", 0, "-">>
S == <<"S", 0, "-">>
Rep(k, op) == [i \in 1..k |-> op]

\* ---- the machine -------------------------------------------------------------------------------
\* tr: the requests as deku's own logging reports them (read_bits n / read_bytes n / seek back k)
St0 == [pos |-> 0, left |-> 0, last |-> 0, out |-> <<>>, io |-> <<>>, tr |-> <<>>]
Put(out, name, start, n) == IF name = "-" THEN out ELSE Append(out, <<name, start, n>>)
ReadBits(st, n, name) ==
  LET start == st.pos * 8 - st.left IN
  IF n <= st.left
  THEN [st EXCEPT !.left = st.left - n, !.last = st.last + n, !.out = Put(st.out, name, start, n)]
  ELSE LET need == n - st.left  k == (need + 7) \div 8 IN
       [st EXCEPT !.pos = st.pos + k, !.left = 8 * k - need, !.last = st.last + n,
                  !.out = Put(st.out, name, start, n), !.io = Append(st.io, <<"r", k>>)]
ReadBitsT(st, n, name) == [ReadBits(st, n, name) EXCEPT !.tr = Append(st.tr, <<"b", n>>)]
ReadBytes(st, n, name) ==
  IF st.left = 0
  THEN [st EXCEPT !.pos = st.pos + n, !.last = st.last + 8 * n, !.out = Put(st.out, name, st.pos * 8, 8 * n), !.io = Append(st.io, <<"r", n>>),
                  !.tr = Append(st.tr, <<"B", n>>)]
  ELSE [ReadBits(st, 8 * n, name) EXCEPT !.tr = Append(st.tr, <<"B", n>>)]
SeekLast(st) ==
  LET k == st.last \div 8 + (IF st.last % 8 > 0 THEN 1 ELSE 0)
      p == st.pos - k IN
  [st EXCEPT !.pos = p, !.left = 0,
             !.out = SelectSeq(st.out, LAMBDA f : f[2] < p * 8),          \* what was read from there on is read again
             !.io = IF k > 0 THEN Append(st.io, <<"s", k>>) ELSE st.io,
             !.tr = Append(st.tr, <<"s", k>>)]
Apply(st, op) ==
  CASE op[1] = "b" -> ReadBitsT(st, op[2], op[3])
    [] op[1] = "B" -> ReadBytes(st, 1, op[3])
    [] op[1] = "W" -> ReadBytes(st, op[2], op[3])
    [] op[1] = "E" -> [st EXCEPT !.last = 0]
    [] op[1] = "S" -> SeekLast(st)
RECURSIVE RunFrom(_, _, _)
RunFrom(st, prog, i) == IF i > Len(prog) THEN st ELSE RunFrom(Apply(st, prog[i]), prog, i + 1)
Run(prog) == RunFrom(St0, prog, 1)

\* ---- the programs (transcribed from libadsb_deku/src/{lib,adsb,bds}.rs) -----------------------------
\* dev: "none" or a named deviation
ICAOp(name) == Rep(3, B(name))
DFid == <<E, b(5, "df")>>
Cap(dev) == IF dev = "D1" THEN <<E, b(3, "-"), S, b(3, "ca")>>          \* before 32de8ab, for the values 1..3
            ELSE <<b(3, "ca")>>                                          \* hand-written reader
FS == <<E, b(3, "fs")>>
DR(pat) == IF pat THEN <<E, b(5, "-"), S, b(5, "dr")>> ELSE <<E, b(5, "dr")>>        \* DownlinkRequest::Unknown(id_pat "_")
UM == <<b(4, "iis"), E, b(2, "ids")>>
Chars == Rep(8, b(6, "ch"))

Opaque(dev, pat) == IF pat THEN <<S>> \o Rep(6, B("raw")) \o (IF dev = "D2" THEN <<>> ELSE <<P(8)>>)
                    ELSE Rep(6, B("raw")) \o (IF dev = "D2" THEN <<>> ELSE <<P(3)>>)
AltitudeP == <<S, b(5, "tc"), E, b(2, "ss"), b(1, "saf"), b(12, "altcode"), b(1, "t"), E, b(1, "f"), b(17, "lat"), b(17, "lon")>>
SurfaceP(dev) == (IF dev = "D4" THEN <<S>> ELSE <<>>)
                 \o <<b(7, "mov"), E, b(1, "gts"), b(7, "trk"), b(1, "t"), E, b(1, "f"), b(17, "lat"), b(17, "lon")>>
VelocityP(st) ==
  <<b(3, "vst"), b(5, "vnac5"), E>>
  \o (IF st \in {1, 2} THEN <<E, b(1, "dew"), b(10, "vew"), E, b(1, "dns"), b(10, "vns")>>
      ELSE IF st \in {3, 4} THEN <<b(1, "hst"), b(10, "hdg"), b(1, "ast"), b(10, "asraw")>>
      ELSE <<b(22, "vraw22")>>)
  \o <<E, b(1, "vrsrc"), E, b(1, "vrsign"), b(9, "vr"), b(2, "-"), E, b(1, "difsign"), b(7, "difraw")>>
StatusP == <<E, b(3, "st"), E, b(3, "es"), b(13, "idcode"), P(32)>>
TssP == <<b(2, "sub29"), P(1), b(1, "alttype"), b(11, "altraw"), b(9, "qnhraw"), b(1, "hdgst"), b(9, "hdgraw"), b(4, "nacp"),
          b(1, "nicbaro"), b(2, "sil"), b(1, "modest"), b(1, "ap29"), b(1, "vnav"), b(1, "althold"), b(1, "adsr"), b(1, "appr"),
          b(1, "tcas"), b(1, "lnav"), P(2)>>
OpModeP == <<b(2, "-"), b(1, "ra"), b(1, "ident"), b(1, "atc"), b(1, "omsaf"), b(2, "sda")>>
OpStatusP(st) ==
  <<E, b(3, "st")>>
  \o (IF st = 0
      THEN <<b(2, "-"), b(1, "acas"), b(1, "cdti"), b(2, "-"), b(1, "arv"), b(1, "ts"), b(2, "cctc"), P(6)>> \o OpModeP
           \o <<P(8), E, b(3, "ver"), b(1, "nica"), b(4, "nacp"), b(2, "gva"), b(2, "sil"), b(1, "nicbaro"), b(1, "hrd"), b(1, "silsup"), P(1)>>
      ELSE IF st = 1
      THEN <<b(2, "-"), b(1, "poa"), b(1, "es1090"), P(2), b(1, "b2low"), b(1, "uatin"), b(3, "nacv"), b(1, "nicc"), b(4, "lw")>> \o OpModeP
           \o <<B("gps"), E, b(3, "ver"), b(1, "nica"), b(4, "nacp"), P(2), b(2, "sil"), b(1, "trkhdg"), b(1, "hrd"), b(1, "silsup"), P(1)>>
      ELSE <<S, b(5, "rsv5")>> \o Rep(5, B("raw")) \o <<P(11)>>)
\* ME: the identifier is the type code; variants selected by one value keep it consumed, variants selected by a pattern
\* re-read it (S) into their first field
MEp(tc, st, dev) ==
  <<E>> \o
  (CASE tc \in {0, 23, 30} -> <<b(5, "tc")>> \o Opaque(dev, FALSE)
     [] tc \in 1..4 -> <<b(5, "-"), S, E, b(5, "tc"), b(3, "cat")>> \o Chars
     [] tc \in 5..8 -> <<b(5, "tc")>> \o SurfaceP(dev)
     [] tc \in 9..18 \/ tc \in 20..22 -> <<b(5, "-")>> \o AltitudeP
     [] tc = 19 -> <<b(5, "tc")>> \o VelocityP(st)
     [] tc \in 24..27 -> <<b(5, "-")>> \o Opaque(dev, TRUE)
     [] tc = 28 -> <<b(5, "tc")>> \o StatusP
     [] tc = 29 -> <<b(5, "tc")>> \o TssP
     [] tc = 31 -> <<b(5, "tc")>> \o OpStatusP(st))
BDSp(first) ==
  <<E>> \o
  (CASE first = 0 -> <<B("bds")>> \o Rep(6, B("raw"))
     [] first = 16 -> <<B("bds"), b(1, "cont"), P(5), b(1, "ovc"), b(1, "dlacas"), b(7, "subnet"), b(1, "enh"), b(1, "spec"), b(3, "uelm"),
                        b(4, "delm"), b(1, "idcap"), b(1, "sqcap"), b(1, "sic"), b(1, "gicb"), b(4, "acasbits"), W(2, "dte")>>
     [] first = 32 -> <<B("bds")>> \o Chars
     [] OTHER -> <<B("-"), S, B("bdsid")>> \o Rep(6, B("raw")))

\* a shape: [df, ca, drpat, tc, st, bds]
Program(s, dev) ==
  CASE s.df = 0 -> DFid \o <<b(1, "vs"), b(1, "cc"), b(1, "-"), b(3, "sl"), b(2, "-"), b(4, "ri"), b(2, "-"), b(13, "ac")>> \o ICAOp("ap")
    [] s.df = 4 -> DFid \o FS \o DR(s.drpat) \o UM \o <<b(13, "ac")>> \o ICAOp("ap")
    [] s.df = 5 -> DFid \o FS \o DR(s.drpat) \o UM \o <<b(13, "id")>> \o ICAOp("ap")
    [] s.df = 11 -> DFid \o Cap(IF s.ca \in 1..3 THEN dev ELSE "none") \o ICAOp("aa") \o ICAOp("pi")
    [] s.df = 16 -> DFid \o <<b(1, "vs"), b(2, "-"), b(3, "sl"), b(2, "-"), b(4, "ri"), b(2, "-"), b(13, "ac")>> \o Rep(7, B("mv")) \o ICAOp("ap")
    [] s.df = 17 -> DFid \o Cap(IF s.ca \in 1..3 THEN dev ELSE "none") \o ICAOp("aa") \o MEp(s.tc, s.st, dev) \o ICAOp("pi")
    [] s.df = 18 -> DFid \o <<E, b(3, "cf")>> \o ICAOp("aa") \o MEp(s.tc, s.st, dev) \o ICAOp("pi")
    [] s.df = 19 -> DFid \o <<b(3, "af")>>
    [] s.df = 20 -> DFid \o FS \o DR(s.drpat) \o UM \o <<b(13, "ac")>> \o BDSp(s.bds)
    [] s.df = 21 -> DFid \o FS \o DR(s.drpat) \o UM \o <<b(13, "id")>> \o BDSp(s.bds) \o ICAOp("ap")
    [] OTHER -> <<E, b(5, "-"), S, b(5, "df")>> \o Cap(IF s.ca \in 1..3 THEN dev ELSE "none") \o ICAOp("aa") \o <<b(5, "tc"), b(51, "data")>> \o ICAOp("pi")

\* ---- what the grammar says (Level A) --------------------------------------------------------------
Shift(rows, o) == [i \in 1..Len(rows) |-> <<rows[i][1], rows[i][2] + o, rows[i][3]>>]
MEKindName(tc, st) ==
  CASE tc \in 1..4 -> "ident" [] tc \in 5..8 -> "surface" [] tc \in 9..18 \/ tc \in 20..22 -> "airpos"
    [] tc = 19 -> (IF st \in {1, 2} THEN "velgs" ELSE IF st \in {3, 4} THEN "velas" ELSE "velrsv")
    [] tc = 28 -> "status" [] tc = 29 -> "tss" [] tc = 31 -> (IF st = 0 THEN "opair" ELSE IF st = 1 THEN "opsurf" ELSE "oprsv")
    [] tc \in 24..27 -> "opaque0" [] OTHER -> "opaque5"
MERows(tc, st) ==
  LET k == MEKindName(tc, st) IN
  CASE k = "opaque5" -> << <<"tc", 0, 5>>, <<"raw", 5, 48>> >>
    [] k = "opaque0" -> << <<"raw", 0, 48>> >>
    [] k = "oprsv" -> << <<"rsv5", 0, 5>>, <<"raw", 5, 40>> >>
    [] k = "velrsv" -> << <<"tc", 0, 5>>, <<"vst", 5, 3>>, <<"vnac5", 8, 5>>, <<"vraw22", 13, 22>>, <<"vrsrc", 35, 1>>, <<"vrsign", 36, 1>>,
                          <<"vr", 37, 9>>, <<"difsign", 48, 1>>, <<"difraw", 49, 7>> >>
    [] OTHER -> Rows(k)
MBRows(first) ==
  CASE first = 0 -> << <<"bds", 0, 8>>, <<"raw", 8, 48>> >>
    [] first = 16 -> Rows("dlc")
    [] first = 32 -> Rows("bdsid")
    [] OTHER -> << <<"bdsid", 0, 8>>, <<"raw", 8, 48>> >>
SurvRows == << <<"df", 0, 5>>, <<"fs", 5, 3>>, <<"dr", 8, 5>>, <<"iis", 13, 4>>, <<"ids", 17, 2>> >>
ExpectRows(s) ==
  CASE s.df = 0 -> << <<"df", 0, 5>>, <<"vs", 5, 1>>, <<"cc", 6, 1>>, <<"sl", 8, 3>>, <<"ri", 13, 4>>, <<"ac", 19, 13>>, <<"ap", 32, 24>> >>
    [] s.df = 4 -> SurvRows \o << <<"ac", 19, 13>>, <<"ap", 32, 24>> >>
    [] s.df = 5 -> SurvRows \o << <<"id", 19, 13>>, <<"ap", 32, 24>> >>
    [] s.df = 11 -> << <<"df", 0, 5>>, <<"ca", 5, 3>>, <<"aa", 8, 24>>, <<"pi", 32, 24>> >>
    [] s.df = 16 -> << <<"df", 0, 5>>, <<"vs", 5, 1>>, <<"sl", 8, 3>>, <<"ri", 13, 4>>, <<"ac", 19, 13>>, <<"mv", 32, 56>>, <<"ap", 88, 24>> >>
    [] s.df = 17 -> << <<"df", 0, 5>>, <<"ca", 5, 3>>, <<"aa", 8, 24>> >> \o Shift(MERows(s.tc, s.st), 32) \o << <<"pi", 88, 24>> >>
    [] s.df = 18 -> << <<"df", 0, 5>>, <<"cf", 5, 3>>, <<"aa", 8, 24>> >> \o Shift(MERows(s.tc, s.st), 32) \o << <<"pi", 88, 24>> >>
    [] s.df = 19 -> << <<"df", 0, 5>>, <<"af", 5, 3>> >>
    [] s.df = 20 -> SurvRows \o << <<"ac", 19, 13>> >> \o Shift(MBRows(s.bds), 32)
    [] s.df = 21 -> SurvRows \o << <<"id", 19, 13>> >> \o Shift(MBRows(s.bds), 32) \o << <<"ap", 88, 24>> >>
    [] OTHER -> << <<"df", 0, 5>>, <<"ca", 5, 3>>, <<"aa", 8, 24>>, <<"tc", 32, 5>>, <<"data", 37, 51>>, <<"pi", 88, 24>> >>
\* bits the struct parse consumes: the whole frame, except where the parity is left to read_crc (DF19, DF20)
ConsumedBits(s) == CASE s.df \in {0, 4, 5, 11} -> 56 [] s.df = 19 -> 8 [] s.df = 20 -> 88 [] OTHER -> 112

\* the pieces delivered under one name are contiguous; together they are the extent <<start, width>>
Pieces(out, name) == SelectSeq(out, LAMBDA f : f[1] = name)
Contiguous(p) == \A i \in 1..(Len(p) - 1) : p[i][2] + p[i][3] = p[i + 1][2]
RECURSIVE SumW(_, _)
SumW(p, i) == IF i > Len(p) THEN 0 ELSE p[i][3] + SumW(p, i + 1)
Width(p) == SumW(p, 1)
\* "ch" (characters) and rows with the same name twice are compared as a whole run
RowExtent(rows, name) == LET p == SelectSeq(rows, LAMBDA r : r[1] = name) IN <<p[1][2], Width(p)>>
Names(out) == {out[i][1] : i \in 1..Len(out)}
DeliversPerGrammar(s, dev) ==
  LET r == Run(Program(s, dev))  rows == ExpectRows(s) IN
  /\ \A n \in Names(r.out) :
        LET p == Pieces(r.out, n) IN
        /\ Contiguous(p)
        /\ \E i \in 1..Len(rows) : rows[i][1] = n
        /\ <<p[1][2], Width(p)>> = RowExtent(rows, n)
  /\ r.pos * 8 - r.left = ConsumedBits(s) /\ r.left = 0

\* ---- the shapes ---------------------------------------------------------------------------------------
Sh(df, ca, drpat, tc, st, bds) == [df |-> df, ca |-> ca, drpat |-> drpat, tc |-> tc, st |-> st, bds |-> bds]
Shapes ==
     {Sh(df, 0, FALSE, 0, 0, 0) : df \in {0, 16, 19}}
  \cup {Sh(df, 0, p, 0, 0, 0) : df \in {4, 5}, p \in BOOLEAN}
  \cup {Sh(df, ca, FALSE, 0, 0, 0) : df \in {11, 24, 27, 31}, ca \in {0, 2, 5, 7}}
  \cup {Sh(17, ca, FALSE, tc, st, 0) : ca \in {0, 2, 5}, tc \in 0..31, st \in {0, 1, 2, 3, 5}}
  \cup {Sh(18, 0, FALSE, tc, st, 0) : tc \in 0..31, st \in {0, 1, 4, 7}}
  \cup {Sh(df, 0, p, 0, 0, f) : df \in {20, 21}, p \in BOOLEAN, f \in {0, 16, 32, 119}}

ASSUME \A s \in Shapes : DeliversPerGrammar(s, "none")
\* the repaired defects, as deviations of the programs: each breaks the grammar for the shapes it touched
ASSUME ~DeliversPerGrammar(Sh(17, 2, FALSE, 11, 0, 0), "D1") /\ DeliversPerGrammar(Sh(17, 5, FALSE, 11, 0, 0), "D1")
ASSUME ~DeliversPerGrammar(Sh(17, 5, FALSE, 0, 0, 0), "D2") /\ ~DeliversPerGrammar(Sh(18, 0, FALSE, 24, 0, 0), "D2")
ASSUME ~DeliversPerGrammar(Sh(17, 5, FALSE, 6, 0, 0), "D4") /\ DeliversPerGrammar(Sh(17, 5, FALSE, 11, 0, 0), "D4")

\* the byte-level calls of a shape, for comparison with the real decoder's
RECURSIVE IoFrom(_, _)
IoFrom(io, i) == IF i > Len(io) THEN "" ELSE (IF i = 1 THEN "" ELSE " ") \o io[i][1] \o ToString(io[i][2]) \o IoFrom(io, i + 1)
IoText(io) == IoFrom(io, 1)
ShapeKey(s) == "df=" \o ToString(s.df) \o "|ca=" \o ToString(s.ca) \o "|drpat=" \o (IF s.drpat THEN "1" ELSE "0")
               \o "|tc=" \o ToString(s.tc) \o "|st=" \o ToString(s.st) \o "|bds=" \o ToString(s.bds)
=============================================================================
