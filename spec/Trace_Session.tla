---------------------------- MODULE Trace_Session ---------------------------
(***************************************************************************)
(* Trace specification binding RadarSession to recorded radar sessions.    *)
(* Each hook event is one step of the machine (after the deterministic     *)
(* internal steps that lead to it): a session is accepted when its events, *)
(* in the order the single-threaded program wrote them, are a behaviour of *)
(* RadarSession.  The first event that is not is reported (`event_order`)  *)
(* and the rest of that session is skipped.                                *)
(*                                                                         *)
(* Judged along the way (owner in brackets):                               *)
(*   event_order, quit_forgotten, exit_without_quit, terminal_not_restored,*)
(*   left_without_reason                                          [C17]    *)
(*   disconnect_keys, retry_lost_aircraft, gave_up_reconnecting   [C16]    *)
(*   action_removed, added_flag, draw_added                       [C12]    *)
(*                                                                         *)
(* Not logged by the hook: keys pressed while the client waits for a       *)
(* connection.  The driver records whether it ever sent a quit key         *)
(* (session_start.quit_sent); a `quit` out of the reconnect wait, or an    *)
(* exit out of the first wait, is explained by WaitQuit only then.         *)
(***************************************************************************)
EXTENDS RadarSession, Json, IOUtils, TLC

Rec == ndJsonDeserialize(IOEnv.TRACE)
TRestore == TRUE

VARIABLES l, m, opts, bad, dkeys
vars == <<l, m, opts, bad, dkeys>>

SeqSet(s) == {s[i] : i \in 1..Len(s)}
NoOpts == [tag |-> "none", retry |-> FALSE, quit_sent |-> FALSE, filter_time |-> 120]

\* the deterministic internal steps up to the next point where something observable happens
Settle1(x, isInput) ==
  CASE x.pc = "start" -> Setup(x)
    [] x.pc = "wait_draw" -> WaitDraw(x)
    [] x.pc = "top" -> Top(x)
    [] x.pc = "events" /\ ~isInput -> EndBurst(x)
    [] OTHER -> x
Settle(x, isInput) == Settle1(Settle1(Settle1(Settle1(Settle1(x, isInput), isInput), isInput), isInput), isInput)

\* result of consuming event ev from state m: [ok, next, diffs]
Step(ev) ==
  LET s == Settle(m, ev.ev \in {"key", "mouse"})
      Bad == [ok |-> FALSE, next |-> m, diffs |-> {"event_order"}]
      Good(n, d) == [ok |-> TRUE, next |-> n, diffs |-> d]
  IN CASE ev.ev = "connected" -> IF s.pc = "wait" THEN Good(Connected(s), {}) ELSE Bad
       [] ev.ev = "line" -> IF s.pc = "read" THEN Good(Line(s), {}) ELSE Bad
       [] ev.ev = "action" ->
            IF s.pc # "lined" THEN Bad
            ELSE LET k == SeqSet(ev.keys) IN
                 Good(Action(s, k), (IF s.tracked \subseteq k THEN {} ELSE {"action_removed"})
                                    \cup (IF Cardinality(k \ s.tracked) = ev.added THEN {} ELSE {"added_flag"}))
       [] ev.ev = "coverage" -> IF s.pc \in {"read", "lined", "actioned"} THEN Good(Coverage(s), {}) ELSE Bad
       [] ev.ev = "draw" ->
            \* (the hook logs `coverage` only when the coverage map changed: the step may have gone by unlogged)
            IF s.pc \notin {"read", "lined", "actioned", "covered"} THEN Bad
            ELSE LET k == SeqSet(ev.keys) IN
                 Good(Draw(s, k), (IF DrawOK(s.tracked, k) THEN {} ELSE {"draw_added"})
                                  \cup (IF dkeys # <<>> /\ opts.filter_time >= 60 /\ ~(SeqSet(dkeys[1]) \subseteq k)
                                        THEN {"retry_lost_aircraft"} ELSE {}))
       [] ev.ev \in {"key", "mouse"} ->
            IF s.pc # "events" THEN Bad
            ELSE Good(Input(s, ev.quit = 1), IF s.quit = "user" /\ ev.quit # 1 THEN {"quit_forgotten"} ELSE {})
       [] ev.ev = "disconnect" ->
            IF s.pc # "read" THEN Bad
            ELSE Good(Disconnect(s), IF SeqSet(ev.keys) = s.tracked THEN {} ELSE {"disconnect_keys"})
       [] ev.ev = "quit" ->
            \* out of the reconnect wait only the operator's quit leads here; when the driver never sent one, the client gave
            \* up reconnecting by itself (the step is taken all the same so that the rest of the session is judged)
            LET b == IF s.pc = "bottom" THEN <<Bottom(s)>>
                     ELSE IF s.pc = "wait" /\ ~s.first THEN <<Bottom(WaitQuit(s))>>
                     ELSE <<>>
            IN IF b = <<>> THEN Bad
               ELSE Good(b[1], (IF LeftForAReason(b[1]) THEN {} ELSE {"left_without_reason"})
                               \cup (IF s.pc = "wait" /\ ~opts.quit_sent THEN {"gave_up_reconnecting"} ELSE {}))
       [] ev.ev = "session_end" ->
            IF ev.panic = 1 \/ ev.alive = 1 \/ ev.exit # 0 THEN Good(s, {})          \* judged by Trace_UI
            ELSE LET b == IF s.pc = "restore" THEN <<Restore(s)>>
                          ELSE IF s.pc = "wait" /\ s.first /\ opts.quit_sent THEN <<Restore(WaitQuit(s))>>
                          ELSE <<>>
                     seen == [raw |-> ev.termios_after # ev.termios_before, mouse |-> ev.modes.mouse # 0, cursor |-> ev.modes.cursor = 1]
                 IN IF b = <<>> THEN [ok |-> TRUE, next |-> s, diffs |-> {"exit_without_quit"}]
                    ELSE Good(b[1], IF b[1].term = seen THEN {} ELSE {"terminal_not_restored"})
       [] OTHER -> Good(m, {})

Owner(f) == CASE f \in {"disconnect_keys", "retry_lost_aircraft", "gave_up_reconnecting"} -> "C16"
              [] f \in {"action_removed", "added_flag", "draw_added"} -> "C12"
              [] OTHER -> "C17"

Init == l = 1 /\ m = M0(FALSE) /\ opts = NoOpts /\ bad = FALSE /\ dkeys = <<>>

Consume ==
  /\ l <= Len(Rec)
  /\ l' = l + 1
  /\ LET ev == Rec[l] IN
     IF ev.ev = "session_start"
     THEN /\ opts' = [tag |-> ev.tag, retry |-> ev.retry = 1, quit_sent |-> ev.quit_sent = 1, filter_time |-> ev.filter_time]
          /\ m' = M0(ev.retry = 1) /\ bad' = FALSE /\ dkeys' = <<>>
     ELSE IF bad THEN UNCHANGED <<m, opts, bad, dkeys>>
     ELSE LET r == Step(ev) IN
          /\ (IF r.diffs = {} THEN TRUE
              ELSE PrintT(<<"VERDICT", l, "session|" \o ev.ev \o "|at=" \o m.pc \o "|" \o opts.tag, {<<Owner(f), f>> : f \in r.diffs}>>))
          /\ m' = r.next /\ bad' = ~r.ok /\ UNCHANGED opts
          /\ dkeys' = IF ev.ev = "disconnect" THEN <<ev.keys>> ELSE IF ev.ev = "draw" THEN <<>> ELSE dkeys

Spec == Init /\ [][Consume]_vars
Accepted == IF TLCGet("stats").diameter = Len(Rec) + 1 THEN TRUE
            ELSE PrintT(<<"TRACE-NOT-CONSUMED", TLCGet("stats").diameter, Len(Rec)>>) /\ FALSE
=============================================================================
