SPECIFICATION Spec
INVARIANT NoUndetectedUpTo5
CHECK_DEADLOCK FALSE
