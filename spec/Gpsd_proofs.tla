---------------------------- MODULE Gpsd_proofs -----------------------------
(* TLAPS: with the mutex (Locked), for ANY sequence of fixes of any length and any interleaving of the two threads,  *)
(* the receiver position is always the command-line one or a fix the server reported (no torn pair), and the two     *)
(* critical sections exclude each other.  Unbounded counterpart of MC_Gpsd's NoTornPair / MutualExclusion.           *)
EXTENDS Gpsd, TLAPS

IsFix(p) == p = <<>> \/ \E i \in 1..Len(Fixes) : p = Fixes[i]
IndInv ==
  /\ gi \in Nat /\ gi >= 1
  /\ gpc \in {"recv", "lock", "store", "unlock"}
  /\ mpc \in {"lock", "copy", "unlock", "rest"}
  /\ (gpc \in {"lock", "store", "unlock"} => gi <= Len(Fixes))
  /\ (gpc \in {"store", "unlock"} <=> holder = "gps")
  /\ (mpc \in {"copy", "unlock"} <=> holder = "main")
  /\ IsFix(cell) /\ IsFix(pos)

THEOREM Safety == ASSUME Locked = TRUE PROVE Spec => [](IsFix(pos) /\ MutualExclusion)
<1>1. Init => IndInv
  BY DEF Init, IndInv, IsFix
<1>2. IndInv /\ [Next]_vars => IndInv'
  <2> SUFFICES ASSUME IndInv, [Next]_vars PROVE IndInv'
    OBVIOUS
  <2>1. CASE GRecv
    BY <2>1 DEF GRecv, IndInv, IsFix
  <2>2. CASE GLock
    BY <2>2 DEF GLock, IndInv, IsFix
  <2>3. CASE GStore
    <3>1. IsFix(cell')
      BY <2>3 DEF GStore, IndInv, IsFix
    <3> QED
      BY <2>3, <3>1 DEF GStore, IndInv, IsFix
  <2>4. CASE GUnlock
    BY <2>4 DEF GUnlock, IndInv, IsFix
  <2>5. CASE GLat
    BY <2>5 DEF GLat, IndInv
  <2>6. CASE GLon
    BY <2>6 DEF GLon, IndInv
  <2>7. CASE MLock
    BY <2>7 DEF MLock, IndInv, IsFix
  <2>8. CASE MCopy
    BY <2>8 DEF MCopy, IndInv, IsFix
  <2>9. CASE MUnlock
    BY <2>9 DEF MUnlock, IndInv, IsFix
  <2>10. CASE MRest
    BY <2>10 DEF MRest, IndInv, IsFix
  <2>11. CASE UNCHANGED vars
    BY <2>11 DEF vars, IndInv, IsFix
  <2> QED
    BY <2>1, <2>2, <2>3, <2>4, <2>5, <2>6, <2>7, <2>8, <2>9, <2>10, <2>11 DEF Next, Gps, Main
<1>3. IndInv => IsFix(pos) /\ MutualExclusion
  BY DEF IndInv, MutualExclusion
<1> QED
  BY <1>1, <1>2, <1>3, PTL DEF Spec
=============================================================================
