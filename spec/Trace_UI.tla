------------------------------ MODULE Trace_UI ------------------------------
(***************************************************************************)
(* Trace specification for radar operator sessions (C17, C18).  The hook   *)
(* logs every draw, key and mouse event with the view state after it; the  *)
(* pty driver appends how the session ended.                               *)
(*                                                                         *)
(* Level A (verdicts): no panic; the client runs until quit is requested,  *)
(* then exits with status 0 leaving the terminal as it found it (cooked    *)
(* mode, cursor visible, mouse reporting off, main screen); input events   *)
(* never change the tracked data; invalid command-line values end in a     *)
(* usage error.                                                            *)
(* Level I (MODEL-DRIFT only): each logged step is explained by the        *)
(* handler tables of RadarUI.tla from the observed state before it.        *)
(***************************************************************************)
EXTENDS RadarUI, Json, IOUtils, TLC, FiniteSets

Rec == ndJsonDeserialize(IOEnv.TRACE)
TGuards == TRUE
TNone == <<>>

VARIABLES l, pre, keys, planes, opts
vars == <<l, pre, keys, planes, opts>>

Z0 == 100                              \* marker value for "zoom unchanged" in the abstract state
AbsT(x) == IF x < 0 THEN -x ELSE x

Obs(ev) == [tab |-> ev.tab, sel |-> ev.sel, zoom |-> Z0, clat |-> ev.clat, clong |-> ev.clong,
            drag |-> IF ev.drag = 1 THEN <<0, 0>> ELSE <<>>, tog |-> ev.toggles, quit |-> ev.quit = 1, panicked |-> FALSE]

Near(a, b) == (a = <<>> /\ b = <<>>) \/ (a # <<>> /\ b # <<>> /\ AbsT(a[1] - b[1]) <= 3)
ScaleOK(z, pre6, post6, base6) ==
  CASE z = Z0 -> post6 = pre6
    [] z = Z0 + 1 -> AbsT(11 * post6 - 10 * pre6) <= 30
    [] z = Z0 - 1 -> AbsT(10 * post6 - 11 * pre6) <= 30
    [] OTHER -> AbsT(post6 - base6) <= 1
\* does the observed state after a step match the state the handler tables predict?
Explains(exp, ev, prev) ==
  /\ exp.tab = ev.tab /\ exp.sel = ev.sel /\ exp.quit = (ev.quit = 1) /\ exp.tog = ev.toggles
  /\ Near(exp.clat, ev.clat) /\ Near(exp.clong, ev.clong)
  /\ (exp.drag = <<>>) = (ev.drag = 0)
  /\ ScaleOK(exp.zoom, prev.scale9 \div 1000, ev.scale9 \div 1000, opts.scale9 \div 1000)

Det(i) == i + 1 <= Len(planes) /\ planes[i + 1].det = 1
Pos(i) == [lat |-> planes[i + 1].lat, lon |-> planes[i + 1].lon]

Expected(ev) ==
  LET s0 == [Obs(pre) EXCEPT !.drag = pre.dragpos] IN
  CASE ev.ev = "key" -> KeyStep(s0, ev.code, ev.mods = 2, Len(ev.keys), Det, Pos, opts.rx)
    [] ev.ev = "mouse" -> MouseStep(s0, ev.kind, ev.col, ev.row, ev.buttons.b, ev.buttons.left, opts.rx)
    [] OTHER -> DrawStep(s0, Len(ev.keys))

SessionDiff(ev) ==
     (IF ev.panic = 1 THEN {"panic"} ELSE {})
  \cup (IF ev.quit_sent = 1 /\ ev.exit # 0 THEN {"exit_status"} ELSE {})
  \cup (IF ev.quit_sent = 0 /\ ev.alive = 0 THEN {"terminated"} ELSE {})
  \cup (IF ev.quit_sent = 1 /\ ev.exit = 0 /\ ev.termios_after # ev.termios_before THEN {"terminal_mode"} ELSE {})
  \cup (IF ev.quit_sent = 1 /\ ev.exit = 0 /\ (ev.modes.mouse # 0 \/ ev.modes.cursor # 1 \/ ev.modes.altscreen # 0) THEN {"terminal_modes"} ELSE {})
  \* quit was requested, nothing happened until the operator typed something else, then the client ended
  \cup (IF "delayed" \in DOMAIN ev /\ ev.delayed = 1 THEN {"quit_delayed_until_more_input"} ELSE {})

CliDiff(ev) == (IF ev.panic = 1 \/ ev.exit = 101 THEN {"cli_panic"} ELSE {})
               \cup (IF ev.invalid = 1 /\ ev.exit # 2 THEN {"cli_usage"} ELSE {})
               \* (runs in a pty) whatever was wrong with the value, the terminal is as it was found
               \cup (IF "termios_after" \in DOMAIN ev /\ (ev.termios_after # ev.termios_before \/ ev.mouse_left_on # 0)
                     THEN {"cli_terminal_left_changed"} ELSE {})

EvDiff(ev) ==
  CASE ev.ev = "session_end" -> SessionDiff(ev)
    [] ev.ev = "cli" -> CliDiff(ev)
    [] ev.ev \in {"key", "mouse"} -> IF ev.keys = keys THEN {} ELSE {"view_changed_data"}
    [] OTHER -> {}

Owner(f) == IF f = "view_changed_data" THEN "C18" ELSE "C17"
\* flood sessions: InputQueue.tla says the quit key waits exactly when the burst exceeds the 1024 bytes read per notification
FloodDrift(ev) == ev.ev = "session_end" /\ "burst_bytes" \in DOMAIN ev /\ (ev.delayed = 1) # (ev.burst_bytes > 1024)
Drift(ev) == \/ ev.ev \in {"key", "mouse", "draw"} /\ pre.valid /\ ~Explains(Expected(ev), ev, pre)
             \/ FloodDrift(ev)

Judge(ev) ==
  LET d == EvDiff(ev) IN
  /\ (IF d = {} THEN TRUE ELSE PrintT(<<"VERDICT", l, "ui|" \o ev.ev \o "|" \o opts.tag, {<<Owner(f), f>> : f \in d}>>))
  /\ (IF Drift(ev) THEN PrintT(<<"INFO", "MODEL-DRIFT", l, ev.ev>>) ELSE TRUE)

NoPre == [valid |-> FALSE, dragpos |-> <<>>]
Init == /\ l = 1 /\ pre = NoPre /\ keys = <<>> /\ planes = <<>>
        /\ opts = [tag |-> "none", rx |-> [lat |-> 0, lon |-> 0], scale9 |-> 0]

Consume ==
  /\ l <= Len(Rec)
  /\ LET ev == Rec[l] IN
     /\ Judge(ev)
     /\ l' = l + 1
     /\ CASE ev.ev = "session_start" -> /\ opts' = [tag |-> ev.tag, rx |-> ev.rx, scale9 |-> ev.scale9]
                                        /\ pre' = NoPre /\ keys' = <<>> /\ planes' = <<>>
          [] ev.ev = "draw" -> /\ pre' = ev @@ [valid |-> TRUE, dragpos |-> IF pre.valid THEN pre.dragpos ELSE <<>>]
                               /\ keys' = ev.keys /\ planes' = ev.planes /\ UNCHANGED opts
          [] ev.ev = "key" -> /\ pre' = ev @@ [valid |-> TRUE, dragpos |-> IF pre.valid THEN pre.dragpos ELSE <<>>]
                              /\ keys' = ev.keys /\ UNCHANGED <<planes, opts>>
          \* where the drag in progress was last seen is not logged: follow the handler table
          \* (an ignored drag event, e.g. over the tab bar, does not move it)
          [] ev.ev = "mouse" -> /\ pre' = ev @@ [valid |-> TRUE,
                                      dragpos |-> IF ev.drag = 0 THEN <<>>
                                                  ELSE IF pre.valid /\ Expected(ev).drag # <<>> THEN Expected(ev).drag
                                                  ELSE <<ev.col, ev.row>>]
                                /\ keys' = ev.keys /\ UNCHANGED <<planes, opts>>
          [] ev.ev \in {"action", "disconnect", "quit"} -> /\ keys' = ev.keys /\ UNCHANGED <<pre, planes, opts>>
          [] OTHER -> UNCHANGED <<pre, keys, planes, opts>>

Spec == Init /\ [][Consume]_vars
Accepted == IF TLCGet("stats").diameter = Len(Rec) + 1 THEN TRUE
            ELSE PrintT(<<"TRACE-NOT-CONSUMED", TLCGet("stats").diameter, Len(Rec)>>) /\ FALSE
=============================================================================
