-------------------------------- MODULE Bits --------------------------------
(***************************************************************************)
(* Bytes, bits and fields.  A frame is a sequence of bytes (0..255),       *)
(* transmitted most-significant bit first.  Bit offsets are 0-based from   *)
(* the first transmitted bit, as in Appendix B of DESIGN.md.               *)
(***************************************************************************)
EXTENDS Integers, Sequences

Pow2(n) == 2^n

\* bit number off (0-based, MSB first) of a byte sequence
BitAt(bytes, off) == (bytes[(off \div 8) + 1] \div Pow2(7 - (off % 8))) % 2

RECURSIVE FieldAcc(_, _, _, _)
FieldAcc(bytes, off, w, acc) ==
  IF w = 0 THEN acc ELSE FieldAcc(bytes, off + 1, w - 1, 2 * acc + BitAt(bytes, off))

\* the w-bit unsigned field starting at bit off (w <= 30 so it fits TLC's integers)
Field(bytes, off, w) == FieldAcc(bytes, off, w, 0)

\* the bits off..off+w-1 as a sequence of 0/1
BitSeq(bytes, off, w) == [i \in 1..w |-> BitAt(bytes, off + i - 1)]

\* the n bytes starting at byte index i (0-based) as a sequence
Bytes(bytes, i, n) == SubSeq(bytes, i + 1, i + n)

Prefix(s, n) == SubSeq(s, 1, n)

Max(a, b) == IF a >= b THEN a ELSE b
Min(a, b) == IF a <= b THEN a ELSE b
Abs(x) == IF x < 0 THEN -x ELSE x

HexDigit(d) == SubSeq("0123456789abcdef", d + 1, d + 1)
RECURSIVE HexN(_, _)
HexN(v, n) == IF n = 0 THEN "" ELSE HexN(v \div 16, n - 1) \o HexDigit(v % 16)   \* n lower-case digits, zero padded
RECURSIVE HexMin(_)
HexMin(v) == IF v < 16 THEN HexDigit(v) ELSE HexMin(v \div 16) \o HexDigit(v % 16)  \* no padding ({:x})

ASSUME Field(<<141, 162>>, 0, 5) = 17 /\ Field(<<141, 162>>, 5, 3) = 5 /\ Field(<<141, 162>>, 8, 8) = 162
ASSUME HexN(10666429, 6) = "a2c1bd" /\ HexMin(255) = "ff" /\ HexMin(0) = "0"
=============================================================================
