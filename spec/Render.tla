------------------------------- MODULE Render -------------------------------
(***************************************************************************)
(* Text rendering of a decoded frame (C11): one fixed template per frame   *)
(* type - the dump1090-style reports pinned by the README and the test     *)
(* suite - instantiated with the frame's own decoded values.  Lines(b, cs) *)
(* is the expected sequence of lines for the bytes b; cs is the decoded    *)
(* identification (the property leaves interior spaces open, so the        *)
(* decoded value is taken from the recording and checked by C08).          *)
(*                                                                         *)
(* Floating-point tokens are normalised by the recorder: every token with  *)
(* a decimal point is replaced by <F> and its value (x 10^4, rounded) is   *)
(* logged; the expected line says which value the token must have.         *)
(***************************************************************************)
EXTENDS Frame, Velocity

Str(n) == ToString(n)

\* printable ASCII 32..126
Ascii == " !\"#$%&'()*+,-./0123456789:;<=>?@ABCDEFGHIJKLMNOPQRSTUVWXYZ[\\]^_`abcdefghijklmnopqrstuvwxyz{|}~"
Chr(c) == IF c >= 32 /\ c <= 126 THEN SubSeq(Ascii, c - 31, c - 31) ELSE "?"
RECURSIVE StrOf(_)
StrOf(codes) == IF codes = <<>> THEN "" ELSE Chr(Head(codes)) \o StrOf(Tail(codes))

FsText(fs) == CASE fs \in {0, 4, 5} -> "airborne?" [] fs = 1 -> "ground?" [] fs = 2 -> "airborne" [] fs = 3 -> "ground" [] OTHER -> "reserved"
CapText(ca) == CASE ca = 0 -> "uncertain1" [] ca \in {1, 2, 3} -> "reserved" [] ca = 4 -> "ground" [] ca = 5 -> "airborne"
                 [] ca = 6 -> "uncertain2" [] OTHER -> "airborne?"
CfText(cf) == CASE cf \in {0, 1} -> "(ADS-B)" [] cf \in {2, 3, 5} -> "(TIS-B)" [] cf \in {4, 6} -> "(ADS-R)" [] OTHER -> "(unknown addressing scheme)"
EsText(es) == CASE es = 0 -> "no emergency" [] es = 1 -> "general" [] es = 2 -> "lifeguard" [] es = 3 -> "minimum fuel"
                [] es = 4 -> "no communication" [] es = 5 -> "unflawful interference" [] es = 6 -> "downed aircraft" [] OTHER -> "reserved2"
TcLetter(tc) == CASE tc = 1 -> "D" [] tc = 2 -> "C" [] tc = 3 -> "B" [] OTHER -> "A"

\* an expected line is a record: exact text, or text with one <F> token whose value (x 10^4) is v +- tol;
\* a value that is (nearly) an integer may also be printed without a decimal point
Ln(s) == [s |-> s, f |-> 0, v |-> 0, alt |-> s]
LnF(pre, v, post) == [s |-> pre \o "<F>" \o post, f |-> 1, v |-> v,
                      alt |-> IF v % 10000 = 0 THEN pre \o Str(v \div 10000) \o post ELSE pre \o "<F>" \o post]

BdsLines(b, o, ind, cs) ==
  LET k == BDSKind(Field(b, o, 8)) IN
  CASE k = 0 -> << Ln(ind \o "Comm-B format: empty response") >>
    [] k = 1 -> << Ln(ind \o "Comm-B format: BDS1,0 Datalink capabilities") >>
    [] k = 2 -> << Ln(ind \o "Comm-B format: BDS2,0 Aircraft identification"), Ln("  Ident:         " \o cs) >>
    [] OTHER -> << Ln(ind \o "Comm-B format: unknown format") >>

AltLines(e) ==
  << Ln("  Altitude:      " \o (IF e.altv = -1 THEN "None" ELSE Str(e.altv) \o " ft barometric")),
     Ln("  CPR type:      Airborne"),
     Ln("  CPR odd flag:  " \o (IF e.f = 0 THEN "even" ELSE "odd")),
     Ln("  CPR latitude:  (" \o Str(e.lat) \o ")"),
     Ln("  CPR longitude: (" \o Str(e.lon) \o ")") >>

OmText(e) == (IF e.ra = 1 THEN " TCAS" ELSE "") \o (IF e.ident = 1 THEN " IDENT_SWITCH_ACTIVE" ELSE "")
             \o (IF e.atc = 1 THEN " ATC" ELSE "") \o (IF e.omsaf = 1 THEN " SAF" ELSE "")
             \o (IF e.sda # 0 THEN " SDA=" \o Str(e.sda) ELSE "")
HrdLine(e) == Ln(IF e.hrd = 1 THEN "   Heading reference:  magnetic north" ELSE "   Heading reference:  true north")

\* e: the contract's fields for the ME (Frame!MEFields plus altv = decoded altitude, -1 for none)
MeLines(b, o, e, T, addr, at, cap, cs, hceil) ==
  LET A == "  Address:       " \o HexN(addr, 6) \o " " \o at
      G == "  Air/Ground:    " \o cap
      H(s) == Ln(" Extended Squitter" \o T \o s)
      k == e.mek
  IN CASE k = 0 -> << H("No position information"), Ln(A), Ln(G) >>
       [] k = 1 -> << H("Aircraft identification and category"), Ln(A), Ln(G), Ln("  Ident:         " \o cs),
                      Ln("  Category:      " \o TcLetter(e.tcl) \o Str(e.cat)) >>
       [] k = 2 -> << H("Surface position"), Ln(A) >>
       [] k = 3 -> << H("Airborne position (barometric altitude)"), Ln(A), Ln(G) >> \o AltLines(e)
       [] k = 5 -> << H("Airborne position (GNSS altitude)"), Ln("  Address:      " \o HexN(addr, 6) \o " " \o at) >> \o AltLines(e)
       [] k = 4 ->
            LET r == VelRaw(b, o) IN
            IF e.vst \in {1, 2}
            THEN << H("Airborne velocity over ground, subsonic"), Ln(A), Ln(G),
                    Ln("  GNSS delta:    " \o (IF e.difsign = 1 THEN "-" ELSE "") \o Str(e.difv) \o " ft") >>
                 \o (IF HasDerived(r)
                     THEN << Ln("  Heading:       " \o Str(hceil)),
                             Ln("  Speed:         " \o Str(Isqrt(East(r) * East(r) + North(r) * North(r))) \o " kt groundspeed"),
                             Ln("  Vertical rate: " \o Str(VRate(r)) \o " ft/min " \o (IF e.vrsrc = 0 THEN "barometric" ELSE "GNSS")) >>
                     ELSE << Ln("  Invalid packet") >>)
            ELSE IF e.vst \in {3, 4}
            THEN << H("Airspeed and heading, subsonic"), Ln(A), Ln(G), Ln("  IAS:           " \o Str(e.asv) \o " kt") >>
                 \o (IF e.vr > 0 THEN << Ln("  Baro rate:     " \o (IF e.vrsign = 1 THEN "-" ELSE "") \o Str((e.vr - 1) * 64) \o " ft/min") >> ELSE << >>)
                 \o << Ln("  NACv:          " \o Str(e.vnac5)) >>
            ELSE << H("Airborne Velocity status (reserved)"), Ln(A) >>
       [] k \in {6, 8} -> << H("Unknown"), Ln(A), Ln(G) >>
       [] k = 7 -> << H("Reserved for surface system status"), Ln(A), Ln(G) >>
       [] k = 9 -> << H("Emergency/priority status"), Ln(A), Ln(G), Ln("  Squawk:        " \o HexMin(e.id)),
                      Ln("  Emergency/priority:    " \o EsText(e.es)) >>
       [] k = 10 -> << H("Target state and status (V2)"), Ln(A), Ln(G), Ln("  Target State and Status:"),
                       Ln("    Target altitude:   MCP, " \o Str(e.selalt) \o " ft"),
                       LnF("    Altimeter setting: ", e.qnh10 * 1000, " millibars") >>
                    \o (IF e.hdgst = 1 THEN << LnF("    Target heading:    ", e.hdgmd \div 100, "") >> ELSE << >>)
                    \o (IF e.tcas = 1
                        THEN << Ln("    ACAS:              operational " \o (IF e.ap29 = 1 THEN "autopilot " ELSE "")
                                   \o (IF e.vnav = 1 THEN "vnav " ELSE "") \o (IF e.althold = 1 THEN "altitude-hold " ELSE "")
                                   \o (IF e.appr = 1 THEN " approach" ELSE "")) >>
                        ELSE << Ln("    ACAS:              NOT operational") >>)
                    \o << Ln("    NACp:              " \o Str(e.nacp)), Ln("    NICbaro:           " \o Str(e.nicbaro)),
                          Ln("    SIL:               " \o Str(e.sil) \o " (per sample)"),
                          LnF("    QNH:               ", e.qnh10 * 1000, " millibars") >>
       [] k = 11 -> << H("Aircraft Operational Coordination"), Ln(A) >>
       [] k = 12 -> << H("Aircraft operational status (airborne)"), Ln(A), Ln(G), Ln("  Aircraft Operational Status:"),
                       Ln("   Version:            " \o Str(e.ver)),
                       Ln("   Capability classes:" \o (IF e.acas = 1 THEN " ACAS" ELSE "") \o (IF e.cdti = 1 THEN " CDTI" ELSE "")
                          \o (IF e.arv = 1 THEN " ARV" ELSE "") \o (IF e.ts = 1 THEN " TS" ELSE "") \o (IF e.cctc = 1 THEN " TC" ELSE "")),
                       Ln("   Operational modes: " \o OmText(e)),
                       Ln("   NIC-A:              " \o Str(e.nica)), Ln("   NACp:               " \o Str(e.nacp)),
                       Ln("   GVA:                " \o Str(e.gva)), Ln("   SIL:                " \o Str(e.sil) \o " (per hour)"),
                       Ln("   NICbaro:            " \o Str(e.nicbaro)), HrdLine(e) >>
       [] k = 13 -> << H("Aircraft operational status (surface)"), Ln(A), Ln(G), Ln("  Aircraft Operational Status:"),
                       Ln("   Version:            " \o Str(e.ver)), Ln("   NIC-A:              " \o Str(e.nica)),
                       Ln("   NIC-C:              " \o Str(e.nicc)), Ln("   NACv:               " \o Str(e.nacv)),
                       Ln("   Capability classes:" \o (IF e.lw # 0 THEN " L/W=" \o Str(e.lw) ELSE "")),
                       Ln("   Operational modes: " \o OmText(e)),
                       Ln("   NACp:               " \o Str(e.nacp)), Ln("   SIL:                " \o Str(e.sil) \o " (per hour)"),
                       Ln("   NICbaro:            " \o Str(e.trkhdg)), HrdLine(e) >>
       [] OTHER -> << H("Aircraft operational status (reserved)"), Ln(A) >>

\* vals: values the contract leaves a choice on, taken from the recording and judged by their own properties:
\*   altv (12-bit altitude, -1 none), difv, asv, cs (identification as a string), hceil (printed heading)
Lines(b, vals) ==
  LET x == Expect(b) IN
  IF x.ok = 0 THEN << >>
  ELSE LET df == x.df
           icao6 == "  ICAO Address:  " \o HexN(x.crc, 6) \o " (Mode S / ADS-B)"
           e == x @@ [altv |-> vals.altv, difv |-> vals.difv, asv |-> vals.asv]
       IN CASE df = 0 -> << Ln(" Short Air-Air Surveillance"), Ln(icao6) >>
                         \o (IF x.ac > 0 THEN << Ln("  Air/Ground:    airborne?"), Ln("  Altitude:      " \o Str(x.ac) \o " ft barometric") >>
                             ELSE << Ln("  Air/Ground:    ground") >>)
            [] df = 4 -> << Ln(" Surveillance, Altitude Reply"), Ln(icao6), Ln("  Air/Ground:    " \o FsText(x.fs)) >>
                         \o (IF x.ac > 0 THEN << Ln("  Altitude:      " \o Str(x.ac) \o " ft barometric") >> ELSE << >>)
            [] df = 5 -> << Ln(" Surveillance, Identity Reply"), Ln(icao6), Ln("  Air/Ground:    " \o FsText(x.fs)),
                            Ln("  Identity:      " \o HexN(x.id, 4)) >>
            [] df = 11 -> << Ln(" All Call Reply"), Ln("  ICAO Address:  " \o HexN(x.aa, 6) \o " (Mode S / ADS-B)"),
                             Ln("  Air/Ground:    " \o CapText(x.ca)) >>
            [] df = 16 -> << Ln(" Long Air-Air ACAS"), Ln(icao6) >>
                          \o (IF x.ac > 0 THEN << Ln("  Air/Ground:    airborne?"), Ln("  Baro altitude: " \o Str(x.ac) \o " ft") >>
                              ELSE << Ln("  Air/Ground:    ground") >>)
            [] df = 17 -> MeLines(b, 32, e, " ", x.aa, "(Mode S / ADS-B)", CapText(x.ca), vals.cs, vals.hceil)
            [] df = 18 -> MeLines(b, 32, e, " (Non-Transponder) ", x.aa, CfText(x.cf), "airborne?", vals.cs, vals.hceil)
            [] df = 19 -> << >>
            [] df = 20 -> << Ln(" Comm-B, Altitude Reply"), Ln("  ICAO Address:  " \o HexMin(x.crc) \o " (Mode S / ADS-B)"),
                             Ln("  Altitude:      " \o Str(x.ac) \o " ft") >> \o BdsLines(b, 32, "  ", vals.cs)
            [] df = 21 -> << Ln(" Comm-B, Identity Reply"), Ln("    ICAO Address:  " \o HexMin(x.crc) \o " (Mode S / ADS-B)"),
                             Ln("    Squawk:        " \o HexMin(x.id)) >> \o BdsLines(b, 32, "    ", vals.cs)
            [] OTHER -> << Ln(" Mode S Extended Squitter Message"), Ln("    ICAO Address:     " \o HexMin(x.crc) \o " (Mode S / ADS-B)") >>

\* the printed heading is ceil(track): track in (H-1, H] (with a small tolerance for tracks that are exact integers)
HeadingCeilOK(H, e, n) ==
  /\ H >= 0 /\ H <= 360
  /\ (H = 0 => (e = 0 /\ n >= 0))                 \* the track lies in [0, 360): only due north rounds up to 0
  /\ (e = 0 /\ n = 0) \/
     LET lo == SinCos4((H - 1) * 10000 - 20)  hi == SinCos4(H * 10000 + 20)
         clo == e * (lo.c \div 1024) - n * (lo.s \div 1024)       \* |v| sin(track - (H-1))  > 0
         chi == e * (hi.c \div 1024) - n * (hi.s \div 1024)       \* |v| sin(track - H)     <= 0
     IN clo > 0 /\ chi <= 0

\* ---- comparison: text = recorded lines (floats normalised), floats = their values -------------------------
RECURSIVE LineDiff(_, _, _, _)
LineDiff(exp, text, floats, fi) ==
  IF exp = <<>> THEN {}
  ELSE LET x == Head(exp)  t == Head(text) IN
       IF x.f = 1 /\ t = x.s
       THEN (IF fi <= Len(floats) /\ floats[fi] >= x.v - 20 /\ floats[fi] <= x.v + 20 THEN {} ELSE {"text_value"})
            \cup LineDiff(Tail(exp), Tail(text), floats, fi + 1)
       ELSE (IF t = x.s \/ t = x.alt THEN {} ELSE {"text_line"}) \cup LineDiff(Tail(exp), Tail(text), floats, fi)

TextDiff(b, text, floats, vals) ==
  LET exp == Lines(b, vals)  x == Expect(b) IN
     (IF Len(exp) # Len(text) THEN {"text_lines"} ELSE LineDiff(exp, text, floats, 1))
  \cup (IF x.ok = 1 /\ x.df # 19 /\ text = <<>> THEN {"text_empty"} ELSE {})
  \cup (IF x.ok = 1 /\ x.df \in {17, 18} /\ x.mek = 4 /\ x.vst \in {1, 2} /\ HasDerived(VelRaw(b, 32))
           /\ ~HeadingCeilOK(vals.hceil, East(VelRaw(b, 32)), North(VelRaw(b, 32))) THEN {"text_heading"} ELSE {})

ASSUME HexMin(0) = "0" /\ StrOf(<<65, 32, 57>>) = "A 9"
ASSUME HeadingCeilOK(45, 100, 100) /\ HeadingCeilOK(293, -300, 125) /\ ~HeadingCeilOK(292, -300, 125) /\ HeadingCeilOK(0, 0, 5)
ASSUME HeadingCeilOK(90, 7, 0) /\ HeadingCeilOK(360, -1, 1000) /\ ~HeadingCeilOK(0, -1, 1000)
=============================================================================
