---------------------------- MODULE Feed_proofs -----------------------------
(* TLAPS: with the length guard in place (GuardShort), no behaviour of the line loop - for any stream, any     *)
(* segmentation, any gaps, of any length - ever crashes.  This is the unbounded counterpart of MC_Feed's NoCrash *)
(* (the other two Level-A invariants are checked on bounded instances only).                                    *)
EXTENDS FeedCore, TLAPS

THEOREM NoCrashAlways == ASSUME GuardShort = TRUE PROVE Spec => []NoCrash
<1>1. Init => NoCrash
  BY DEF Init, NoCrash
<1>2. NoCrash /\ [Next]_vars => NoCrash'
  <2> SUFFICES ASSUME NoCrash, [Next]_vars PROVE NoCrash'
    OBVIOUS
  <2>1. CASE Send
    BY <2>1 DEF Send, NoCrash
  <2>2. CASE ReadLine
    BY <2>2 DEF ReadLine, NoCrash
  <2>3. CASE Process
    BY <2>3 DEF Process, NoCrash
  <2>4. CASE UNCHANGED vars
    BY <2>4 DEF vars, NoCrash
  <2> QED
    BY <2>1, <2>2, <2>3, <2>4 DEF Next
<1> QED
  BY <1>1, <1>2, PTL DEF Spec
=============================================================================
