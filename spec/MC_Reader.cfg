SPECIFICATION Spec
CONSTANTS
  Progs <- MCProgs
  Wrapper <- MCWrapper
  MaxEintr <- MCMaxEintr
  MaxShort <- MCMaxShort
INVARIANT LevelA
INVARIANT Replay
CHECK_DEADLOCK FALSE
