SPECIFICATION FairSpec
CONSTANTS
  Progs <- MCProgs
  Wrapper <- MCWrapper
  MaxEintr <- MCMaxEintr
  MaxShort <- MCMaxShort
INVARIANT LevelA
INVARIANT Replay
PROPERTY Terminates
CHECK_DEADLOCK FALSE
