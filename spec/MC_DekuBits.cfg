SPECIFICATION Spec
INVARIANT PrintPrograms
CHECK_DEADLOCK FALSE
