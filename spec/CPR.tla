-------------------------------- MODULE CPR ---------------------------------
(***************************************************************************)
(* Compact Position Reporting, airborne format, globally unambiguous       *)
(* decoding (DO-260B A.1.7.7 / ICAO 9871 D.2.4.7.7), in exact integers.    *)
(*                                                                         *)
(* Unit of latitude: 360 / (60*59*2^17) degrees; the full circle is        *)
(* C = 463 994 880 units < 2^31.  Even latitudes are multiples of 59 units,*)
(* odd latitudes multiples of 60 units.  Longitudes are kept as a zone     *)
(* count ni and a numerator L in units of 360/(ni*2^17) degrees.           *)
(***************************************************************************)
EXTENDS Integers, FiniteSets, Sequences

P17 == 131072
C   == 463994880
AbsC(x) == IF x < 0 THEN -x ELSE x

\* ceil(deg * C / 360) of the 58 transition latitudes of NL (1090-WP-9-14, table of NL(lat));
\* drivers/selfcheck.py recomputes them from the closed form of NL
Thr == << 13495126, 19111659, 23439815, 27104255, 30346612, 33290663, 36009853, 38551991, 40950252,
          43228772, 45405761, 47495356, 49508794, 51455186, 53342036, 55175617, 56961236, 58703430,
          60406118, 62072709, 63706194, 65309215, 66884121, 68433009, 69957765, 71460090, 72941526,
          74403479, 75847230, 77273956, 78684739, 80080576, 81462389, 82831033, 84187300, 85531927,
          86865600, 88188956, 89502585, 90807035, 92102810, 93390371, 94670132, 95942457, 97207653,
          98465957, 99717520, 100962375, 102200392, 103431203, 104654063, 105867611, 107069390,
          108254821, 109414713, 110527984, 111533247, 112132096 >>

\* number of longitude zones at latitude u (units): 59 at the equator, 1 above 87 degrees
NL(u) == 59 - Cardinality({k \in 1..58 : AbsC(u) >= Thr[k]})

\* a report is [odd |-> 0/1, lat |-> YZ, lon |-> XZ] with YZ, XZ in 0..2^17-1
GlobalDecode(first, second) ==
  IF first.odd = second.odd THEN [some |-> 0]
  ELSE LET ev  == IF first.odd = 0 THEN first ELSE second
           od  == IF first.odd = 1 THEN first ELSE second
           j   == (2 * (59 * ev.lat - 60 * od.lat) + P17) \div (2 * P17)         \* floor(59 YZ0/2^17 - 60 YZ1/2^17 + 1/2)
           r0a == 59 * (P17 * (j % 60) + ev.lat)
           r1a == 60 * (P17 * (j % 59) + od.lat)
           r0  == IF r0a >= 3 * (C \div 4) THEN r0a - C ELSE r0a                  \* southern hemisphere: 270..360 -> -90..0
           r1  == IF r1a >= 3 * (C \div 4) THEN r1a - C ELSE r1a
           lat == IF second.odd = 0 THEN r0 ELSE r1
           nl  == NL(lat)
           ni  == IF nl - second.odd < 1 THEN 1 ELSE nl - second.odd
           m   == (2 * (ev.lon * (nl - 1) - od.lon * nl) + P17) \div (2 * P17)
           La  == P17 * (m % ni) + second.lon
           L   == IF 2 * La >= ni * P17 THEN La - ni * P17 ELSE La                \* [-180, 180)
       IN IF NL(r0) = NL(r1) /\ AbsC(r0) <= C \div 4 /\ AbsC(r1) <= C \div 4
          THEN [some |-> 1, latU |-> lat, ni |-> ni, L |-> L, nl |-> nl]
          ELSE [some |-> 0]                          \* the two reports cannot stem from one location

\* micro-degrees without overflow:   6e6/2^17 = 45 + 795/1024      360e6/2^17 = 2746 + 149/256
EvenUdeg(A) == LET s == IF A < 0 THEN -1 ELSE 1  a == AbsC(A)
               IN s * (a * 45 + (a \div 1024) * 795 + ((a % 1024) * 795) \div 1024)           \* A = units / 59
ZoneUdeg(L, n) == LET s == IF L < 0 THEN -1 ELSE 1  a == AbsC(L)  q == a \div n  r == a % n
                  IN s * (q * 2746 + (q * 149) \div 256 + (r * 2747) \div n)                  \* L * 360e6 / (n * 2^17)
LatUdeg(d, odd) == IF odd = 0 THEN EvenUdeg(d.latU \div 59) ELSE ZoneUdeg(d.latU \div 60, 59)
LonUdeg(d) == ZoneUdeg(d.L, d.ni)

\* sender side, for true positions on an exact grid -------------------------------------------
\* latitude u in units (-C/4 .. C/4); YZ_i = floor(2^17 * mod(lat, Dlat_i) / Dlat_i + 1/2) mod 2^17
EncLat(u, odd) == LET dl == IF odd = 0 THEN C \div 60 ELSE C \div 59        \* zone height in units (59*2^17 / 60*2^17)
                      q  == IF odd = 0 THEN 59 ELSE 60                      \* units per CPR step
                  IN ((2 * (u % dl) + q) \div (2 * q)) % P17
\* the latitude the receiver will reconstruct for that report (units)
RLat(u, odd) == LET dl == IF odd = 0 THEN C \div 60 ELSE C \div 59
                    q  == IF odd = 0 THEN 59 ELSE 60
                    z  == IF u >= 0 THEN u \div dl ELSE -((-u + dl - 1) \div dl)       \* floor(u / dl)
                IN q * ((2 * (u % dl) + q) \div (2 * q)) + z * dl
\* longitude given in the n-zone system as numerator lam of 360/(n*2^17) degrees, 0 <= lam < n*2^17,
\* re-expressed in the k-zone system and rounded to a CPR step
EncLonIn(lam, n, k) == IF k = n THEN lam % P17
                       ELSE LET t == (k * lam) % (n * P17)                  \* k*lam/n mod 2^17, numerator over n
                            IN ((2 * t + n) \div (2 * n)) % P17

ASSUME NL(0) = 59 /\ NL(13495125) = 59 /\ NL(13495126) = 58 /\ NL(-13495126) = 58
ASSUME NL(112132095) = 2 /\ NL(112132096) = 1 /\ NL(C \div 4) = 1
\* the three pairs pinned by the test-suite (52.257202/3.919372, 88.917474/101.011047, -35.840195/150.283852)
T1 == GlobalDecode([odd |-> 1, lat |-> 74158, lon |-> 50194], [odd |-> 0, lat |-> 93000, lon |-> 51372])
T2 == GlobalDecode([odd |-> 0, lat |-> 108011, lon |-> 110088], [odd |-> 1, lat |-> 75050, lon |-> 36777])
T3 == GlobalDecode([odd |-> 0, lat |-> 3487, lon |-> 4958], [odd |-> 1, lat |-> 16540, lon |-> 81316])
ASSUME T1.some = 1 /\ AbsC(LatUdeg(T1, 0) - 52257202) <= 2 /\ AbsC(LonUdeg(T1) - 3919373) <= 2
ASSUME T2.some = 1 /\ AbsC(LatUdeg(T2, 1) - 88917474) <= 2 /\ AbsC(LonUdeg(T2) - 101011047) <= 2
ASSUME T3.some = 1 /\ AbsC(LatUdeg(T3, 1) + 35840195) <= 2 /\ AbsC(LonUdeg(T3) - 150283852) <= 2
ASSUME GlobalDecode([odd |-> 0, lat |-> 1, lon |-> 1], [odd |-> 0, lat |-> 2, lon |-> 2]).some = 0
=============================================================================
