-------------------------------- MODULE Feed --------------------------------
(* The clients' line loop (FeedCore) together with its Level-A properties.  The state machine lives in FeedCore  *)
(* so that the proof system, which does not accept RECURSIVE operators, can load it (Feed_proofs).                *)
EXTENDS FeedCore

\* complete lines of a byte sequence
RECURSIVE SplitLines(_, _, _)
SplitLines(s, cur, acc) == IF s = <<>> THEN acc
                           ELSE IF IsNL(Head(s)) THEN SplitLines(Tail(s), <<>>, Append(acc, Append(cur, Head(s))))
                           ELSE SplitLines(Tail(s), Append(cur, Head(s)), acc)
Complete(s) == SplitLines(s, <<>>, <<>>)
\* ---- Level A -------------------------------------------------------------------------------
\* (a line with a stray byte is not well formed: it is skipped, whole)
Expected == SelectSeq(Complete(Stream), LAMBDA ln : Len(ln) >= 3 /\ ~HasStray(ln))
ExactlyOnceInOrder == IsPrefix(processed, Expected)
\* at quiescence everything has been processed
Quiescent == sent = Len(Stream) /\ avail = <<>> /\ pc = "read" /\ NLIdx(input) = 0
AllProcessed == (Quiescent /\ ~crashed) => processed = Expected
LevelA == NoCrash /\ ExactlyOnceInOrder /\ AllProcessed
\* liveness: if server and client keep taking their steps, every complete line ends up processed, and stays so
FairSpec == Spec /\ WF_vars(Send) /\ WF_vars(ReadLine) /\ WF_vars(Process)
EventuallyAllProcessed == <>[](crashed \/ processed = Expected)
=============================================================================
