----------------------------- MODULE Trace_Pair -----------------------------
(***************************************************************************)
(* Trace specification for CPR pairing (C05).                              *)
(*  pair   : first, second, out = [some, lat, lon] (micro-degrees)         *)
(*  nlchg  : a change point of the longitude-zone count found by the       *)
(*           recorder's exhaustive walk over the reachable latitudes,      *)
(*           with the pair that exhibits it                                *)
(*  nlsum  : the complete list of change points of one walk                *)
(***************************************************************************)
EXTENDS CPR, Json, IOUtils, TLC

Rec == ndJsonDeserialize(IOEnv.TRACE)
Tol == 3                      \* micro-degrees (about 0.33 m)
Full == 360000000

VARIABLE l
vars == <<l>>

LonDiff(a, b) == LET d == AbsC(a - b) IN IF d > Full \div 2 THEN Full - d ELSE d

PairDiff(first, second, out) ==
  LET d == GlobalDecode(first, second) IN
  IF out.outcome # "ok" THEN {"outcome"}
  ELSE IF d.some = 0 THEN (IF out.some = 0 THEN {} ELSE {"some"})
  ELSE IF out.some = 0 THEN {"some"}
  ELSE (IF AbsC(out.lat - LatUdeg(d, second.odd)) <= Tol THEN {} ELSE {"lat"})
       \cup (IF LonDiff(out.lon, LonUdeg(d)) <= Tol THEN {} ELSE {"lon"})
       \* (the recorder rounds to micro-degrees: 179.9999997 is logged as 180000000, so <= is the tightest sound bound)
       \* ... and the recorder says whether the unrounded values lie in [-90, 90] x [-180, 180): +180 is not in it)
       \cup (IF out.lat >= -90000000 /\ out.lat <= 90000000 /\ out.lon >= -180000000 /\ out.lon <= 180000000 /\ out.inrange = 1
             THEN {} ELSE {"range"})

\* zone count observable from a decode with the given "latest" parity at latitude index a
\* (even grid: latitude 59a units, odd grid: 60a units)
NiAt(grid, a) == LET nl == NL((IF grid = 0 THEN 59 ELSE 60) * a) IN IF nl - grid < 1 THEN 1 ELSE nl - grid

CeilDiv(x, y) == (x + y - 1) \div y
\* first index at or above each threshold (north), first index below it (south), within the walked range
ExpectedChanges(grid) ==
  LET q == IF grid = 0 THEN 59 ELSE 60
      ks == IF grid = 0 THEN 1..58 ELSE 1..57          \* NL 2 -> 1 does not change max(NL-1, 1)
  IN {CeilDiv(Thr[k], q) : k \in ks} \cup {1 - CeilDiv(Thr[k], q) : k \in ks}

SeqToSet(s) == {s[i] : i \in 1..Len(s)}

EvDiff(ev) ==
  CASE ev.ev = "pair"  -> PairDiff(ev.first, ev.second, ev.out)
    [] ev.ev = "nlchg" -> PairDiff(ev.first, ev.second, ev.out)
                          \cup (IF ev.after = NiAt(ev.grid, ev.a) /\ ev.before = NiAt(ev.grid, ev.a - 1) THEN {} ELSE {"nl"})
    [] ev.ev = "nlsum" -> IF SeqToSet(ev.changes) = ExpectedChanges(ev.grid) /\ Len(ev.changes) = Cardinality(ExpectedChanges(ev.grid))
                             /\ ev.failures = 0
                          THEN {} ELSE {"nlset"}
    [] OTHER -> {"unknown-event"}

ClassOf(ev) == IF ev.ev = "pair" THEN "pair|" \o ev.tag ELSE ev.ev \o "|grid=" \o ToString(ev.grid)

Judge(i) ==
  LET ev == Rec[i]  d == EvDiff(ev)
  IN IF d = {} THEN TRUE ELSE PrintT(<<"VERDICT", i, ClassOf(ev), {<<IF f = "outcome" THEN "C01" ELSE "C05", f>> : f \in d}>>)

Init == l = 1
Next == l <= Len(Rec) /\ Judge(l) /\ l' = l + 1
Spec == Init /\ [][Next]_vars
Accepted == IF TLCGet("stats").diameter = Len(Rec) + 1 THEN TRUE
            ELSE PrintT(<<"TRACE-NOT-CONSUMED", TLCGet("stats").diameter, Len(Rec)>>) /\ FALSE
=============================================================================
