SPECIFICATION FairSpec
CONSTANTS
  Stream <- MCStream
  KeepPartial <- MCKeep
  GuardShort <- MCGuard
  MaxSegs <- MCMaxSegs
INVARIANT LevelA
INVARIANT Replay
PROPERTY EventuallyAllProcessed
CHECK_DEADLOCK FALSE
