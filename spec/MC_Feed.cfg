SPECIFICATION FairSpec
CONSTANTS
  Stream <- MCStream
  KeepPartial <- MCKeep
  GuardShort <- MCGuard
  TextBuffer <- MCText
  MaxSegs <- MCMaxSegs
INVARIANT LevelA
INVARIANT Replay
PROPERTY EventuallyAllProcessed
CHECK_DEADLOCK FALSE
