SPECIFICATION Spec
CONSTANTS
  Stream <- MCStream
  KeepPartial <- MCKeep
  GuardShort <- MCGuard
  MaxSegs <- MCMaxSegs
INVARIANT LevelA
INVARIANT Replay
CHECK_DEADLOCK FALSE
