//! hx: drives the real adsb_deku / rsadsb_common code and records what it did as ndjson events.
//! The judgement of every event is made by TLC against the TLA+ specification, never here.
mod project;

use std::alloc::{GlobalAlloc, Layout, System};
use std::io::{BufRead, BufWriter, Write};
use std::panic::{catch_unwind, AssertUnwindSafe};
use std::sync::atomic::{AtomicU64, AtomicUsize, Ordering};

use adsb_deku::Frame;
use serde_json::{json, Map, Value};

// ---------------------------------------------------------------------------------------------
// counting allocator (C01: "allocates no more than a small constant amount")
struct Counting;
static ALLOCATED: AtomicUsize = AtomicUsize::new(0);
unsafe impl GlobalAlloc for Counting {
    unsafe fn alloc(&self, l: Layout) -> *mut u8 {
        ALLOCATED.fetch_add(l.size(), Ordering::Relaxed);
        System.alloc(l)
    }
    unsafe fn dealloc(&self, p: *mut u8, l: Layout) {
        System.dealloc(p, l)
    }
    unsafe fn realloc(&self, p: *mut u8, l: Layout, n: usize) -> *mut u8 {
        if n > l.size() {
            ALLOCATED.fetch_add(n - l.size(), Ordering::Relaxed);
        }
        System.realloc(p, l, n)
    }
}
#[global_allocator]
static GLOBAL: Counting = Counting;

// watchdog: index of the input being processed and when it started (ms since start)
static CUR_INDEX: AtomicU64 = AtomicU64::new(u64::MAX);
static CUR_START: AtomicU64 = AtomicU64::new(0);

fn now_ms(t0: std::time::Instant) -> u64 {
    t0.elapsed().as_millis() as u64
}

fn bytes_of(v: &Value) -> Vec<u8> {
    v.as_array().map(|a| a.iter().map(|x| x.as_u64().unwrap_or(0) as u8).collect()).unwrap_or_default()
}

fn lines_of(s: &str) -> Value {
    Value::Array(s.lines().map(|l| Value::String(l.to_string())).collect())
}

/// decode one buffer and project the result
fn decode_event(bytes: &[u8], want_text: bool, want_ops: bool) -> Value {
    let before = ALLOCATED.load(Ordering::Relaxed);
    let r = catch_unwind(AssertUnwindSafe(|| Frame::from_bytes(bytes)));
    let alloc = ALLOCATED.load(Ordering::Relaxed) - before;
    let mut ev = Map::new();
    ev.insert("ev".into(), json!("decode"));
    ev.insert("bytes".into(), json!(bytes));
    ev.insert("alloc".into(), json!(alloc.min(2_000_000_000)));
    match r {
        Err(_) => {
            ev.insert("outcome".into(), json!("panic"));
            ev.insert("out".into(), json!({"ok": 2}));
        }
        Ok(Err(_)) => {
            ev.insert("outcome".into(), json!("err"));
            ev.insert("out".into(), json!({"ok": 0}));
        }
        Ok(Ok(frame)) => {
            ev.insert("outcome".into(), json!("ok"));
            let p = catch_unwind(AssertUnwindSafe(|| project::frame(&frame)));
            match p {
                Ok(m) => {
                    ev.insert("out".into(), Value::Object(m));
                }
                Err(_) => {
                    ev.insert("outcome".into(), json!("panic"));
                    ev.insert("out".into(), json!({"ok": 2}));
                }
            }
            if want_ops || want_text {
                // every operation offered on a decoded frame: Display, Debug, velocity computation
                let ops = catch_unwind(AssertUnwindSafe(|| {
                    let text = frame.to_string();
                    let dbg = format!("{frame:?}");
                    let mut calc = Value::Null;
                    let vel = match &frame.df {
                        adsb_deku::DF::ADSB(a) => Some(&a.me),
                        adsb_deku::DF::TisB { cf, .. } => Some(&cf.me),
                        _ => None,
                    };
                    if let Some(adsb_deku::adsb::ME::AirborneVelocity(v)) = vel {
                        calc = project_calc(v);
                    }
                    (text, dbg.len(), calc)
                }));
                match ops {
                    Ok((text, _dbglen, calc)) => {
                        ev.insert("ops".into(), json!("ok"));
                        if want_text {
                            ev.insert("text".into(), lines_of(&text));
                        }
                        if !calc.is_null() {
                            ev.insert("calc".into(), calc);
                        }
                    }
                    Err(_) => {
                        ev.insert("ops".into(), json!("panic"));
                    }
                }
            }
        }
    }
    Value::Object(ev)
}

/// derived velocity as scaled integers: heading in 1e-4 degrees, ground speed in milli-knots
pub fn project_calc(v: &adsb_deku::adsb::AirborneVelocity) -> Value {
    match v.calculate() {
        None => json!({"some": 0, "hdg4": 0, "gsmkt": 0, "vrate": 0}),
        Some((h, g, r)) => json!({
            "some": 1,
            "hdg4": project::scaled(f64::from(h), 1e4),
            "gsmkt": project::scaled(g, 1e3),
            "vrate": i64::from(r),
        }),
    }
}

fn cmd_decode(args: &[String]) {
    let want_text = args.iter().any(|a| a == "--text");
    let want_ops = args.iter().any(|a| a == "--ops");
    let skip: u64 = args
        .iter()
        .position(|a| a == "--skip")
        .and_then(|i| args.get(i + 1))
        .and_then(|s| s.parse().ok())
        .unwrap_or(0);
    let t0 = std::time::Instant::now();
    // watchdog thread: an input that takes more than 2 s is reported as a time-out (exit code 3;
    // the orchestrator restarts after it)
    std::thread::spawn(move || loop {
        std::thread::sleep(std::time::Duration::from_millis(100));
        let idx = CUR_INDEX.load(Ordering::SeqCst);
        if idx != u64::MAX && now_ms(t0).saturating_sub(CUR_START.load(Ordering::SeqCst)) > 2000 {
            eprintln!("HX-TIMEOUT index={idx}");
            std::process::exit(3);
        }
    });
    let stdin = std::io::stdin();
    let stdout = std::io::stdout();
    let mut out = BufWriter::new(stdout.lock());
    for (i, line) in stdin.lock().lines().enumerate() {
        let line = line.unwrap();
        if (i as u64) < skip || line.trim().is_empty() {
            continue;
        }
        let v: Value = serde_json::from_str(&line).expect("input json");
        let bytes = bytes_of(&v["bytes"]);
        CUR_START.store(now_ms(t0), Ordering::SeqCst);
        CUR_INDEX.store(i as u64, Ordering::SeqCst);
        let mut ev = decode_event(&bytes, want_text, want_ops);
        CUR_INDEX.store(u64::MAX, Ordering::SeqCst);
        if let Some(tag) = v.get("tag") {
            ev.as_object_mut().unwrap().insert("tag".into(), tag.clone());
        }
        serde_json::to_writer(&mut out, &ev).unwrap();
        out.write_all(b"\n").unwrap();
        // flush so that a later time-out does not lose completed events
        out.flush().unwrap();
    }
    out.flush().unwrap();
}

fn main() {
    // panics of the code under test are data, not noise
    std::panic::set_hook(Box::new(|_| {}));
    let args: Vec<String> = std::env::args().collect();
    match args.get(1).map(String::as_str) {
        Some("decode") => cmd_decode(&args[2..]),
        Some("config") => {
            println!("{}", if cfg!(feature = "std") { "std" } else { "alloc" });
        }
        _ => {
            eprintln!("usage: hx decode [--text] [--ops] [--skip N] < inputs.ndjson > events.ndjson");
            std::process::exit(2);
        }
    }
}
