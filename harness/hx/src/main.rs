//! hx: drives the real adsb_deku / rsadsb_common code and records what it did as ndjson events.
//! The judgement of every event is made by TLC against the TLA+ specification, never here.
//! The projections tolerate additions to the library's enums and structs (wildcard arms, `..` patterns): an added
//! variant shows up as a disagreement with the specification, not as a harness that no longer builds.
#![allow(unreachable_patterns)]
#[cfg(feature = "std")]
mod bits;
mod project;
#[cfg(feature = "std")]
mod reader;
mod track;

use std::alloc::{GlobalAlloc, Layout, System};
use std::io::{BufRead, BufWriter, Write};
use std::panic::{catch_unwind, AssertUnwindSafe};
use std::sync::atomic::{AtomicU64, AtomicUsize, Ordering};

use adsb_deku::Frame;
use serde_json::{json, Map, Value};

// ---------------------------------------------------------------------------------------------
// counting allocator (C01: "allocates no more than a small constant amount")
struct Counting;
static ALLOCATED: AtomicUsize = AtomicUsize::new(0);
unsafe impl GlobalAlloc for Counting {
    unsafe fn alloc(&self, l: Layout) -> *mut u8 {
        ALLOCATED.fetch_add(l.size(), Ordering::Relaxed);
        System.alloc(l)
    }
    unsafe fn dealloc(&self, p: *mut u8, l: Layout) {
        System.dealloc(p, l)
    }
    unsafe fn realloc(&self, p: *mut u8, l: Layout, n: usize) -> *mut u8 {
        if n > l.size() {
            ALLOCATED.fetch_add(n - l.size(), Ordering::Relaxed);
        }
        System.realloc(p, l, n)
    }
}
#[global_allocator]
static GLOBAL: Counting = Counting;

// watchdog: index of the input being processed and when it started (ms since start)
static CUR_INDEX: AtomicU64 = AtomicU64::new(u64::MAX);
static CUR_START: AtomicU64 = AtomicU64::new(0);

/// Watchdog for the commands that feed one input (or history) after the other: an input that runs for more than `limit_ms`
/// is reported on stderr (`HX-TIMEOUT index=N`) and the process exits with status 3; the orchestrator records the time-out
/// as data and resumes after that input (`--skip N+1`).
pub fn wd_start(limit_ms: u64) -> std::time::Instant {
    let t0 = std::time::Instant::now();
    std::thread::spawn(move || loop {
        std::thread::sleep(std::time::Duration::from_millis(100));
        let idx = CUR_INDEX.load(Ordering::SeqCst);
        if idx != u64::MAX && now_ms(t0).saturating_sub(CUR_START.load(Ordering::SeqCst)) > limit_ms {
            eprintln!("HX-TIMEOUT index={idx}");
            std::process::exit(3);
        }
    });
    t0
}
pub fn wd_begin(t0: std::time::Instant, i: u64) {
    CUR_START.store(now_ms(t0), Ordering::SeqCst);
    CUR_INDEX.store(i, Ordering::SeqCst);
}
pub fn wd_end() {
    CUR_INDEX.store(u64::MAX, Ordering::SeqCst);
}
pub fn skip_arg() -> u64 {
    let args: Vec<String> = std::env::args().collect();
    args.iter().position(|a| a == "--skip").and_then(|i| args.get(i + 1)).and_then(|s| s.parse().ok()).unwrap_or(0)
}

fn now_ms(t0: std::time::Instant) -> u64 {
    t0.elapsed().as_millis() as u64
}

fn bytes_of(v: &Value) -> Vec<u8> {
    v.as_array().map(|a| a.iter().map(|x| x.as_u64().unwrap_or(0) as u8).collect()).unwrap_or_default()
}

fn lines_of(s: &str) -> Value {
    Value::Array(s.lines().map(|l| Value::String(l.to_string())).collect())
}

/// Replace every token `digits.digits` by `<F>` and collect the values (x 10^4, rounded): floating-point
/// tokens are compared numerically by the specification, not as strings.
fn normalise_floats(text: &str) -> (Value, Value) {
    let mut lines = vec![];
    let mut floats = vec![];
    for line in text.lines() {
        let ch: Vec<char> = line.chars().collect();
        let mut out = String::new();
        let mut i = 0;
        while i < ch.len() {
            if ch[i].is_ascii_digit() && (i == 0 || !(ch[i - 1].is_ascii_alphanumeric() || ch[i - 1] == '.')) {
                let mut j = i;
                while j < ch.len() && ch[j].is_ascii_digit() {
                    j += 1;
                }
                if j + 1 < ch.len() && ch[j] == '.' && ch[j + 1].is_ascii_digit() {
                    let mut k = j + 1;
                    while k < ch.len() && ch[k].is_ascii_digit() {
                        k += 1;
                    }
                    let tok: String = ch[i..k].iter().collect();
                    let v: f64 = tok.parse().unwrap_or(f64::NAN);
                    floats.push(json!(project::scaled(v, 1e4)));
                    out.push_str("<F>");
                    i = k;
                    continue;
                }
                out.extend(&ch[i..j]);
                i = j;
                continue;
            }
            out.push(ch[i]);
            i += 1;
        }
        lines.push(Value::String(out));
    }
    (Value::Array(lines), Value::Array(floats))
}

/// decode one buffer and project the result
fn decode_event(bytes: &[u8], want_text: bool, want_ops: bool, want_serde: bool) -> Value {
    let before = ALLOCATED.load(Ordering::Relaxed);
    let r = catch_unwind(AssertUnwindSafe(|| Frame::from_bytes(bytes)));
    let alloc = ALLOCATED.load(Ordering::Relaxed) - before;
    let mut ev = Map::new();
    ev.insert("ev".into(), json!("decode"));
    ev.insert("bytes".into(), json!(bytes));
    ev.insert("alloc".into(), json!(alloc.min(2_000_000_000)));
    match r {
        Err(_) => {
            ev.insert("outcome".into(), json!("panic"));
            ev.insert("out".into(), json!({"ok": 2}));
        }
        Ok(Err(_)) => {
            ev.insert("outcome".into(), json!("err"));
            ev.insert("out".into(), json!({"ok": 0}));
        }
        Ok(Ok(frame)) => {
            ev.insert("outcome".into(), json!("ok"));
            let p = catch_unwind(AssertUnwindSafe(|| project::frame(&frame)));
            match p {
                Ok(m) => {
                    ev.insert("out".into(), Value::Object(m));
                }
                Err(_) => {
                    ev.insert("outcome".into(), json!("panic"));
                    ev.insert("out".into(), json!({"ok": 2}));
                }
            }
            #[cfg(feature = "std")]
            if want_serde {
                // serialize / deserialize round trip of the decoded frame (C20)
                let r = catch_unwind(AssertUnwindSafe(|| {
                    let s = serde_json::to_string(&frame).map_err(|e| e.to_string())?;
                    let f2: Frame = serde_json::from_str(&s).map_err(|e| e.to_string())?;
                    Ok::<_, String>((project::frame(&f2), format!("{f2:?}") == format!("{frame:?}")))
                }));
                match r {
                    Ok(Ok((m, same))) => {
                        ev.insert("serde".into(), Value::Object(m));
                        // the whole value, compared through its Debug form (variants the projection does not tell apart)
                        ev.insert("serde_eq".into(), json!(i64::from(same)));
                    }
                    _ => {
                        ev.insert("serde".into(), json!({"ok": 3}));
                    }
                }
            }
            #[cfg(not(feature = "std"))]
            let _ = want_serde;
            if want_ops || want_text {
                // every operation offered on a decoded frame: Display, Debug, velocity computation
                let ops = catch_unwind(AssertUnwindSafe(|| {
                    let text = frame.to_string();
                    let dbg = format!("{frame:?}");
                    let mut calc = Value::Null;
                    let mut hceil: i64 = 0;
                    let vel = match &frame.df {
                        adsb_deku::DF::ADSB(a) => Some(&a.me),
                        adsb_deku::DF::TisB { cf, .. } => Some(&cf.me),
                        _ => None,
                    };
                    if let Some(adsb_deku::adsb::ME::AirborneVelocity(v)) = vel {
                        calc = project_calc(v);
                        if let Some((h, _, _)) = v.calculate() {
                            hceil = f64::from(h).ceil() as i64;
                        }
                    }
                    (text, dbg.len(), calc, hceil)
                }));
                match ops {
                    Ok((text, _dbglen, calc, hceil)) => {
                        ev.insert("ops".into(), json!("ok"));
                        ev.insert("hceil".into(), json!(hceil));
                        if want_text {
                            let (lines, floats) = normalise_floats(&text);
                            ev.insert("text".into(), lines);
                            ev.insert("floats".into(), floats);
                            ev.insert("rawtext".into(), lines_of(&text));
                        }
                        if !calc.is_null() {
                            ev.insert("calc".into(), calc);
                        }
                    }
                    Err(_) => {
                        ev.insert("ops".into(), json!("panic"));
                    }
                }
            }
        }
    }
    Value::Object(ev)
}

/// derived velocity as scaled integers: heading in 1e-4 degrees, ground speed in milli-knots
pub fn project_calc(v: &adsb_deku::adsb::AirborneVelocity) -> Value {
    match v.calculate() {
        None => json!({"some": 0, "hdg4": 0, "hneg": 0, "gsmkt": 0, "vrate": 0}),
        Some((h, g, r)) => json!({
            "some": 1,
            "hdg4": project::scaled(f64::from(h), 1e4),
            // the sign of the value as a consumer sees it (`-0.0` prints as "-0" and is negative to `is_sign_negative`)
            "hneg": i64::from(h.is_sign_negative()),
            "gsmkt": project::scaled(g, 1e3),
            "vrate": i64::from(r),
        }),
    }
}

/// input lines: {"bytes":[..], "n": k} - the bytes are a stream read through the library's own cursor type of this
/// build (std::io::Cursor / the no_std one): k decodes one after the other from the same reader, whatever each one
/// returns. What is recorded is what each decode produced.
fn cmd_stream() {
    let stdin = std::io::stdin();
    let stdout = std::io::stdout();
    let mut out = BufWriter::new(stdout.lock());
    for line in stdin.lock().lines() {
        let line = line.unwrap();
        if line.trim().is_empty() {
            continue;
        }
        let v: Value = serde_json::from_str(&line).expect("input json");
        let bytes: Vec<u8> = v["bytes"].as_array().unwrap().iter().map(|x| x.as_u64().unwrap() as u8).collect();
        let n = v["n"].as_u64().unwrap_or(2);
        let mut cur = deku::no_std_io::Cursor::new(bytes.clone());
        let mut outs = vec![];
        for _ in 0..n {
            let r = catch_unwind(AssertUnwindSafe(|| Frame::from_reader(&mut cur)));
            outs.push(match r {
                Err(_) => json!({"ok": 2}),
                Ok(Err(_)) => json!({"ok": 0}),
                Ok(Ok(f)) => Value::Object(project::frame(&f)),
            });
        }
        serde_json::to_writer(&mut out, &json!({"ev": "stream", "bytes": bytes, "outs": outs})).unwrap();
        out.write_all(b"\n").unwrap();
    }
    out.flush().unwrap();
}

fn cmd_decode(args: &[String]) {
    let want_text = args.iter().any(|a| a == "--text");
    let want_ops = args.iter().any(|a| a == "--ops");
    let want_serde = args.iter().any(|a| a == "--serde");
    let skip: u64 = args
        .iter()
        .position(|a| a == "--skip")
        .and_then(|i| args.get(i + 1))
        .and_then(|s| s.parse().ok())
        .unwrap_or(0);
    let t0 = std::time::Instant::now();
    // watchdog thread: an input that takes more than 2 s is reported as a time-out (exit code 3;
    // the orchestrator restarts after it)
    std::thread::spawn(move || loop {
        std::thread::sleep(std::time::Duration::from_millis(100));
        let idx = CUR_INDEX.load(Ordering::SeqCst);
        if idx != u64::MAX && now_ms(t0).saturating_sub(CUR_START.load(Ordering::SeqCst)) > 2000 {
            eprintln!("HX-TIMEOUT index={idx}");
            std::process::exit(3);
        }
    });
    let stdin = std::io::stdin();
    let stdout = std::io::stdout();
    let mut out = BufWriter::new(stdout.lock());
    for (i, line) in stdin.lock().lines().enumerate() {
        let line = line.unwrap();
        if (i as u64) < skip || line.trim().is_empty() {
            continue;
        }
        let v: Value = serde_json::from_str(&line).expect("input json");
        let bytes = bytes_of(&v["bytes"]);
        CUR_START.store(now_ms(t0), Ordering::SeqCst);
        CUR_INDEX.store(i as u64, Ordering::SeqCst);
        let mut ev = decode_event(&bytes, want_text, want_ops, want_serde);
        CUR_INDEX.store(u64::MAX, Ordering::SeqCst);
        if let Some(tag) = v.get("tag") {
            ev.as_object_mut().unwrap().insert("tag".into(), tag.clone());
        }
        serde_json::to_writer(&mut out, &ev).unwrap();
        out.write_all(b"\n").unwrap();
        // flush so that a later time-out does not lose completed events
        out.flush().unwrap();
    }
    out.flush().unwrap();
}

// ---------------------------------------------------------------------------------------------
// CPR pairing (C05)

fn report(odd: i64, lat: i64, lon: i64) -> adsb_deku::Altitude {
    adsb_deku::Altitude {
        odd_flag: if odd == 1 { adsb_deku::CPRFormat::Odd } else { adsb_deku::CPRFormat::Even },
        lat_cpr: lat as u32,
        lon_cpr: lon as u32,
        ..adsb_deku::Altitude::default()
    }
}

fn pair_out(first: &adsb_deku::Altitude, second: &adsb_deku::Altitude) -> (Value, Option<(f64, f64)>) {
    match catch_unwind(AssertUnwindSafe(|| adsb_deku::cpr::get_position((first, second)))) {
        Err(_) => (json!({"outcome": "panic", "some": 0, "lat": 0, "lon": 0, "inrange": 1}), None),
        Ok(None) => (json!({"outcome": "ok", "some": 0, "lat": 0, "lon": 0, "inrange": 1}), None),
        Ok(Some(p)) => {
            let finite = p.latitude.is_finite() && p.longitude.is_finite();
            (
                // inrange: the exact (unrounded) values lie in [-90, 90] x [-180, 180)
                json!({"outcome": if finite { "ok" } else { "nonfinite" }, "some": 1,
                       "lat": project::scaled(p.latitude, 1e6), "lon": project::scaled(p.longitude, 1e6),
                       "inrange": i64::from((-90.0..=90.0).contains(&p.latitude) && p.longitude >= -180.0 && p.longitude < 180.0)}),
                Some((p.latitude, p.longitude)),
            )
        }
    }
}

fn rep_json(odd: i64, lat: i64, lon: i64) -> Value {
    json!({"odd": odd, "lat": lat, "lon": lon})
}

fn cmd_pair() {
    let stdin = std::io::stdin();
    let stdout = std::io::stdout();
    let mut out = BufWriter::new(stdout.lock());
    for line in stdin.lock().lines() {
        let line = line.unwrap();
        if line.trim().is_empty() {
            continue;
        }
        let v: Value = serde_json::from_str(&line).expect("input json");
        let f: Vec<i64> = v["first"].as_array().unwrap().iter().map(|x| x.as_i64().unwrap()).collect();
        let s: Vec<i64> = v["second"].as_array().unwrap().iter().map(|x| x.as_i64().unwrap()).collect();
        let (o, _) = pair_out(&report(f[0], f[1], f[2]), &report(s[0], s[1], s[2]));
        let ev = json!({"ev": "pair", "tag": v["tag"].as_str().unwrap_or(""), "first": rep_json(f[0], f[1], f[2]),
                        "second": rep_json(s[0], s[1], s[2]), "out": o});
        serde_json::to_writer(&mut out, &ev).unwrap();
        out.write_all(b"\n").unwrap();
    }
    out.flush().unwrap();
}

/// Walk every reachable latitude of one grid (even: index a = latitude 59a units, odd: 60a units,
/// unit = 360/(60*59*2^17) degrees) between -90 and 90 degrees in ascending order, observe the
/// longitude-zone count through the public pairing function (equal longitude CPR values 2^16 in both
/// reports give longitude 180/ni), and log only the change points.  The run-length compression is
/// harness code; every logged pair and the complete list of change points are judged by TLC.
fn cmd_nlsweep() {
    const P17: i64 = 131072;
    const DL0: i64 = 7733248; // C/60
    const DL1: i64 = 7864320; // C/59
    let stdout = std::io::stdout();
    let mut out = BufWriter::new(stdout.lock());
    for grid in 0..2i64 {
        let (lo, hi) = if grid == 0 { (-15 * P17, 15 * P17) } else { (-(59 * P17) / 4, (59 * P17) / 4) };
        let mut prev: Option<i64> = None;
        let mut changes: Vec<i64> = vec![];
        let mut failures = 0u64;
        let mut visited = 0u64;
        for a in lo..=hi {
            visited += 1;
            let u = if grid == 0 { 59 * a } else { 60 * a };
            // this grid's own report
            let full = if grid == 0 { 60 * P17 } else { 59 * P17 };
            let own = a.rem_euclid(full) % P17;
            // the other parity's encoding of the same latitude; neighbours are tried when the pair is
            // refused (the two reconstructed latitudes may straddle a zone transition)
            let (dl, q) = if grid == 0 { (DL1, 60) } else { (DL0, 59) };
            let base = ((2 * u.rem_euclid(dl) + q) / (2 * q)) % P17;
            let mut seen: Option<(i64, Value, Value, Value)> = None;
            for d in [0i64, 1, -1, 2, -2, 3, -3] {
                let other = (base + d).rem_euclid(P17);
                let (first, second) = if grid == 0 { (report(1, other, 65536), report(0, own, 65536)) }
                                       else { (report(0, other, 65536), report(1, own, 65536)) };
                let (o, pos) = pair_out(&first, &second);
                if let Some((lat, lon)) = pos {
                    let want = (u as f64) * 360.0 / 463_994_880.0;
                    if (lat - want).abs() > 1e-6 || lon == 0.0 {
                        continue;
                    }
                    let ni = (180.0 / lon.abs()).round() as i64;
                    let (fj, sj) = if grid == 0 { (rep_json(1, other, 65536), rep_json(0, own, 65536)) }
                                   else { (rep_json(0, other, 65536), rep_json(1, own, 65536)) };
                    seen = Some((ni, fj, sj, o));
                    break;
                }
            }
            match seen {
                None => failures += 1,
                Some((ni, fj, sj, o)) => {
                    if let Some(p) = prev {
                        if p != ni {
                            changes.push(a);
                            let ev = json!({"ev": "nlchg", "grid": grid, "a": a, "before": p, "after": ni,
                                            "first": fj, "second": sj, "out": o});
                            serde_json::to_writer(&mut out, &ev).unwrap();
                            out.write_all(b"\n").unwrap();
                        }
                    }
                    prev = Some(ni);
                }
            }
        }
        let ev = json!({"ev": "nlsum", "grid": grid, "changes": changes, "failures": failures.min(1_000_000_000),
                        "visited": visited.min(2_000_000_000)});
        serde_json::to_writer(&mut out, &ev).unwrap();
        out.write_all(b"\n").unwrap();
    }
    out.flush().unwrap();
}

/// C04: textual form of every 24-bit address and its parse-back.  The equation from_str(to_string(a)) = a and the
/// shape of the text are evaluated here for all 2^24 addresses (an oracle-free equation); the event carries the
/// number of failures and sample texts, which TLC judges (count must be 0, samples must equal Bits!HexN).
fn cmd_icao() {
    use core::str::FromStr;
    let mut failures: u64 = 0;
    let mut first_fail: i64 = -1;
    let mut samples = vec![];
    let picks: [u32; 12] = [0, 1, 0xf, 0x10, 0xabcdef, 0xa2c1bd, 0x00ff00, 0x7fffff, 0x800000, 0xfffffe, 0xffffff, 0x0a0b0c];
    for a in 0..(1u32 << 24) {
        let icao = adsb_deku::ICAO([(a >> 16) as u8, (a >> 8) as u8, a as u8]);
        let text = icao.to_string();
        let shape = text.len() == 6 && text.bytes().all(|c| c.is_ascii_digit() || (b'a'..=b'f').contains(&c));
        let back = adsb_deku::ICAO::from_str(&text).ok();
        if !shape || back != Some(icao) {
            failures += 1;
            if first_fail < 0 {
                first_fail = i64::from(a);
            }
        }
        if picks.contains(&a) || a % 1_398_101 == 7 {
            samples.push(json!({"a": a, "text": text}));
        }
    }
    println!("{}", json!({"ev": "icao", "checked": 1u32 << 24, "failures": failures.min(2_000_000_000), "first_failure": first_fail, "samples": samples}));
}

fn main() {
    // panics of the code under test are data, not noise
    std::panic::set_hook(Box::new(|_| {}));
    let args: Vec<String> = std::env::args().collect();
    match args.get(1).map(String::as_str) {
        Some("decode") => cmd_decode(&args[2..]),
        Some("pair") => cmd_pair(),
        Some("icao") => cmd_icao(),
        Some("track") => track::cmd_track(),
        #[cfg(feature = "std")]
        Some("reader") => reader::cmd_reader(),
        #[cfg(feature = "std")]
        Some("bits") => bits::cmd_bits(),
        Some("stream") => cmd_stream(),
        Some("nlsweep") => cmd_nlsweep(),
        Some("config") => {
            println!("{}", if cfg!(feature = "std") { "std" } else { "alloc" });
        }
        _ => {
            eprintln!("usage: hx decode [--text] [--ops] [--skip N] < inputs.ndjson > events.ndjson");
            std::process::exit(2);
        }
    }
}
