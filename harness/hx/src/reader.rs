//! Scripted `Read + Seek` (C19): serves a byte vector following a script of per-call behaviours and
//! logs every call.  Script entries: 0 = transient `Interrupted` error, k > 0 = return at most k bytes,
//! anything after the end of the script = as many bytes as asked for.
use std::io::{BufRead, BufWriter, Write};
use std::panic::{catch_unwind, AssertUnwindSafe};

use adsb_deku::Frame;
use serde_json::{json, Value};

use crate::project;

pub struct Scripted {
    data: Vec<u8>,
    pub pos: usize,
    script: Vec<i64>,
    next: usize,
    pub calls: Vec<Value>,
    /// hard failures: script entry -1 = this read fails for good (BrokenPipe); `fail_seek` = the n-th seek (1-based) fails
    pub fail_seek: usize,
    seeks: usize,
    pub hard: usize,
    /// the data sits at absolute position `base` of a (virtually) much longer stream: every position the reader reports
    /// or accepts is offset by it
    pub base: u64,
}

impl Scripted {
    pub fn new(data: Vec<u8>, script: Vec<i64>) -> Self {
        Self { data, pos: 0, script, next: 0, calls: vec![], fail_seek: 0, seeks: 0, hard: 0, base: 0 }
    }
}

impl deku::no_std_io::Read for Scripted {
    fn read(&mut self, buf: &mut [u8]) -> deku::no_std_io::Result<usize> {
        let step = self.script.get(self.next).copied();
        self.next += 1;
        if step == Some(0) {
            self.calls.push(json!(["r", buf.len(), -1]));
            return Err(std::io::Error::from(std::io::ErrorKind::Interrupted));
        }
        if step == Some(-1) {
            self.calls.push(json!(["r", buf.len(), -2]));
            self.hard += 1;
            return Err(std::io::Error::from(std::io::ErrorKind::BrokenPipe));
        }
        let avail = self.data.len() - self.pos;
        let mut n = buf.len().min(avail);
        if let Some(k) = step {
            n = n.min(k as usize);
        }
        buf[..n].copy_from_slice(&self.data[self.pos..self.pos + n]);
        self.pos += n;
        self.calls.push(json!(["r", buf.len(), n]));
        Ok(n)
    }
}

impl deku::no_std_io::Seek for Scripted {
    fn seek(&mut self, pos: deku::no_std_io::SeekFrom) -> deku::no_std_io::Result<u64> {
        use deku::no_std_io::SeekFrom;
        let (code, off, new) = match pos {
            SeekFrom::Start(o) => (0, (o % (1 << 31)) as i64, (i128::from(o) - i128::from(self.base)).clamp(-1, 1 << 40) as i64),
            SeekFrom::End(o) => (2, o, self.data.len() as i64 + o),
            SeekFrom::Current(o) => (1, o, self.pos as i64 + o),
        };
        self.seeks += 1;
        if self.seeks == self.fail_seek {
            self.calls.push(json!(["s", code, off, -2]));
            self.hard += 1;
            return Err(std::io::Error::from(std::io::ErrorKind::BrokenPipe));
        }
        if new < 0 {
            self.calls.push(json!(["s", code, off, -1]));
            return Err(std::io::Error::from(std::io::ErrorKind::InvalidInput));
        }
        self.pos = (new as usize).min(self.data.len());
        self.calls.push(json!(["s", code, off, self.pos]));
        Ok(self.base + self.pos as u64)
    }
}

fn proj(r: std::thread::Result<Result<Frame, deku::DekuError>>) -> (Value, &'static str) {
    match r {
        Err(_) => (json!({"ok": 2}), "panic"),
        Ok(Err(_)) => (json!({"ok": 0}), "err"),
        Ok(Ok(f)) => (Value::Object(project::frame(&f)), "ok"),
    }
}

/// input lines: {"bytes":[..], "script":[..], "between":[[..bytes..], ...]}
/// The frame is decoded from the scripted reader, then the `between` frames are decoded from slices,
/// then the frame is decoded again from a slice (purity: decoding other frames in between never changes a result).
pub fn cmd_reader() {
    let stdin = std::io::stdin();
    let stdout = std::io::stdout();
    let mut out = BufWriter::new(stdout.lock());
    let skip = crate::skip_arg();
    let t0 = crate::wd_start(3000);
    for (i, line) in stdin.lock().lines().enumerate() {
        let line = line.unwrap();
        if (i as u64) < skip || line.trim().is_empty() {
            continue;
        }
        crate::wd_begin(t0, i as u64);
        let v: Value = serde_json::from_str(&line).expect("input json");
        let bytes: Vec<u8> = v["bytes"].as_array().unwrap().iter().map(|x| x.as_u64().unwrap() as u8).collect();
        let script: Vec<i64> = v["script"].as_array().map(|a| a.iter().map(|x| x.as_i64().unwrap()).collect()).unwrap_or_default();
        let plain0 = proj(catch_unwind(AssertUnwindSafe(|| Frame::from_bytes(&bytes))));
        // optionally the frame does not sit at the beginning of the reader: `prefix` junk bytes come first and the
        // reader is positioned after them; `chain` decodes the same frame a second time from the same reader
        // (two frames back to back)
        // (`prefix_bytes`: what comes first is given - another frame, say - instead of junk)
        let given: Option<Vec<u8>> = v["prefix_bytes"].as_array().map(|a| a.iter().map(|x| x.as_u64().unwrap() as u8).collect());
        let prefix = given.as_ref().map_or(v["prefix"].as_u64().unwrap_or(0) as usize, Vec::len);
        let chain = v["chain"].as_u64().unwrap_or(0) == 1;
        let mut data: Vec<u8> = given.unwrap_or_else(|| (0..prefix).map(|i| (i as u8).wrapping_mul(37).wrapping_add(11)).collect());
        data.extend_from_slice(&bytes);
        if chain {
            // (two further copies: a decode that took too much of the stream still finds a frame's worth of bytes)
            data.extend_from_slice(&bytes);
            data.extend_from_slice(&bytes);
        }
        let mut rd = Scripted::new(data, script.clone());
        rd.pos = prefix;
        rd.fail_seek = v["fail_seek"].as_u64().unwrap_or(0) as usize;
        // "base": [hi, lo] - the absolute position of the first byte is hi * 2^31 + lo (kept in two parts: the trace
        // checker's integers are 32 bits wide)
        if let Some(b) = v["base"].as_array() {
            rd.base = b[0].as_u64().unwrap_or(0) * (1u64 << 31) + b[1].as_u64().unwrap_or(0);
        }
        let r = catch_unwind(AssertUnwindSafe(|| Frame::from_reader(&mut rd)));
        let (mut o, mut outcome) = proj(r);
        if chain && outcome == "ok" {
            // the second frame starts where the first one ended (a whole frame is consumed, no more)
            let flen = if bytes.first().map_or(false, |b| b & 0x80 != 0) { 14 } else { 7 };
            if rd.pos != prefix + flen {
                // (the checksum the first decode reported stays in the record: it is judged on its own)
                let crc = o.get("crc").cloned().unwrap_or(json!(-1));
                let consumed = rd.pos.saturating_sub(prefix);
                // what a consumer of the stream gets next: the following decode, from wherever the reader now stands -
                // it takes it for the second frame, and the checksum reported with it for that frame's
                let r2 = catch_unwind(AssertUnwindSafe(|| Frame::from_reader(&mut rd)));
                let (o2, _) = proj(r2);
                let next_ok = o2.get("ok").and_then(Value::as_i64).unwrap_or(0);
                let next_crc = if next_ok == 1 { o2.get("crc").cloned().unwrap_or(json!(-1)) } else { json!(-1) };
                o = json!({"ok": 4, "consumed": consumed, "crc": crc, "next_ok": next_ok, "next_crc": next_crc});
                outcome = "misaligned";
            } else {
                let r2 = catch_unwind(AssertUnwindSafe(|| Frame::from_reader(&mut rd)));
                let (o2, oc2) = proj(r2);
                if o2 != o {
                    o = o2;
                    outcome = oc2;
                } else if rd.pos != prefix + 2 * flen {
                    // the same frame again, but not read from where the first one ended (or not wholly)
                    let crc = o.get("crc").cloned().unwrap_or(json!(-1));
                    o = json!({"ok": 4, "consumed": rd.pos.saturating_sub(prefix), "crc": crc});
                    outcome = "misaligned";
                }
            }
        }
        if let Some(b) = v["between"].as_array() {
            for other in b {
                let ob: Vec<u8> = other.as_array().unwrap().iter().map(|x| x.as_u64().unwrap() as u8).collect();
                let _ = catch_unwind(AssertUnwindSafe(|| Frame::from_bytes(&ob).map(|f| f.to_string())));
            }
        }
        let plain1 = proj(catch_unwind(AssertUnwindSafe(|| Frame::from_bytes(&bytes))));
        let ev = json!({"ev": "rdecode", "bytes": bytes, "script": script, "calls": rd.calls, "consumed": rd.next,
                        "out": o, "outcome": outcome, "hard": rd.hard, "plain": plain0.0, "again": plain1.0, "tag": v["tag"].as_str().unwrap_or("")});
        crate::wd_end();
        serde_json::to_writer(&mut out, &ev).unwrap();
        out.write_all(b"\n").unwrap();
        out.flush().unwrap();
    }
    out.flush().unwrap();
}
