//! Tracker recorder: runs histories (frames, clock ticks, expiry, serde round trips) through the real
//! `rsadsb_common::Airplanes` and logs the complete projected state after every step.
use std::io::{BufRead, BufWriter, Write};
use std::panic::{catch_unwind, AssertUnwindSafe};

use adsb_deku::Frame;
use rsadsb_common::{Added, AirplaneState, Airplanes};
use serde_json::{json, Value};

use crate::project::{icao_u32, scaled};

fn slot(a: &Option<adsb_deku::Altitude>) -> Value {
    match a {
        None => json!({"some": 0, "f": 0, "lat": 0, "lon": 0, "alt": -1}),
        Some(x) => json!({"some": 1, "f": crate::project::parity_code(&x.odd_flag), "lat": x.lat_cpr, "lon": x.lon_cpr,
                          "alt": x.alt.map_or(-1, i64::from)}),
    }
}

fn record(planes: &Airplanes, key: &adsb_deku::ICAO, st: &AirplaneState, display: &str) -> Value {
    let c = &st.coords;
    let pos = match &c.position {
        None => json!({"some": 0, "lat": 0, "lon": 0}),
        Some(p) => json!({"some": 1, "lat": scaled(p.latitude, 1e6), "lon": scaled(p.longitude, 1e6)}),
    };
    let dist = match c.kilo_distance {
        None => json!({"some": 0, "m": 0}),
        Some(d) => json!({"some": 1, "m": scaled(d, 1e3)}),
    };
    let track: Vec<Value> = st
        .track
        .as_ref()
        .map(|t| {
            t.iter()
                .filter_map(|c| c.position.map(|p| json!([scaled(p.latitude, 1e6), scaled(p.longitude, 1e6)])))
                .collect()
        })
        .unwrap_or_default();
    let tracklen = st.track.as_ref().map_or(0, Vec::len);
    let det = planes.aircraft_details(*key);
    let inpos = planes.all_position().iter().any(|(k, _)| k == key);
    let indisp = display.lines().any(|l| l.starts_with(&format!("{key}: ")));
    json!({
        "addr": icao_u32(key),
        "n": st.num_messages,
        "hascs": i64::from(st.callsign.is_some()),
        "cs": st.callsign.as_deref().unwrap_or("").chars().map(|c| c as u32).collect::<Vec<u32>>(),
        "hasvel": i64::from(st.heading.is_some()) + 2 * i64::from(st.speed.is_some()) + 4 * i64::from(st.vert_speed.is_some()),
        "hdg4": st.heading.map_or(0, |h| scaled(f64::from(h), 1e4)),
        "spd": st.speed.map_or(0, |s| scaled(f64::from(s), 1e3)),
        "vr": st.vert_speed.map_or(0, i64::from),
        "even": slot(&c.altitudes[0]),
        "odd": slot(&c.altitudes[1]),
        "pos": pos,
        "dist": dist,
        "track": track,
        "tracklen": tracklen,
        "det": i64::from(det.is_some()),
        "detalt": det.as_ref().map_or(-1, |d| i64::from(d.altitude)),
        "detpos": det.as_ref().map_or(json!([0, 0]), |d| json!([scaled(d.position.latitude, 1e6), scaled(d.position.longitude, 1e6)])),
        "inpos": i64::from(inpos),
        "indisp": i64::from(indisp),
    })
}

pub fn project_planes(planes: &Airplanes) -> Value {
    let display = planes.to_string();
    Value::Array(planes.iter().map(|(k, st)| record(planes, k, st, &display)).collect())
}

fn emit(out: &mut impl Write, v: &Value) {
    serde_json::to_writer(&mut *out, v).unwrap();
    out.write_all(b"\n").unwrap();
}

pub fn cmd_track() {
    let stdin = std::io::stdin();
    let stdout = std::io::stdout();
    let mut out = BufWriter::new(stdout.lock());
    let skip = crate::skip_arg();
    let wd = crate::wd_start(20000);
    for (hi, line) in stdin.lock().lines().enumerate() {
        let line = line.unwrap();
        if (hi as u64) < skip || line.trim().is_empty() {
            continue;
        }
        crate::wd_begin(wd, hi as u64);
        let h: Value = serde_json::from_str(&line).expect("history json");
        let rx_lat = h["rx"][0].as_i64().unwrap();
        let rx_lon = h["rx"][1].as_i64().unwrap();
        let range_m = h["range_m"].as_i64().unwrap();
        let rx = (rx_lat as f64 / 1e6, rx_lon as f64 / 1e6);
        let range_km = range_m as f64 / 1e3;
        emit(&mut out, &json!({"ev": "reset", "hist": h["id"], "rx": {"lat": rx_lat, "lon": rx_lon}, "range_m": range_m}));
        let t0 = std::time::Instant::now();
        let mut planes = Airplanes::new();
        let mut dead = false;
        // real time the history has taken so far: what the recorded ticks do not account for
        #[cfg(feature = "std")]
        let mut t0 = std::time::Instant::now();
        for step in h["steps"].as_array().unwrap() {
            let op = step["op"].as_str().unwrap();
            if dead {
                break;
            }
            match op {
                "frame" => {
                    let bytes: Vec<u8> = step["bytes"].as_array().unwrap().iter().map(|x| x.as_u64().unwrap() as u8).collect();
                    let r = catch_unwind(AssertUnwindSafe(|| match Frame::from_bytes(&bytes) {
                        Ok(frame) => Some(planes.action(frame, rx, range_km)),
                        Err(_) => None,
                    }));
                    match r {
                        Err(_) => {
                            emit(&mut out, &json!({"ev": "action", "bytes": bytes, "outcome": "panic", "added": 0, "planes": []}));
                            dead = true;
                        }
                        Ok(None) => emit(&mut out, &json!({"ev": "action", "bytes": bytes, "outcome": "undecodable", "added": 0,
                                                           "planes": project_planes(&planes)})),
                        Ok(Some(a)) => emit(&mut out, &json!({"ev": "action", "bytes": bytes, "outcome": "ok",
                                                              "added": i64::from(a == Added::Yes), "planes": project_planes(&planes)})),
                    }
                }
                #[cfg(feature = "std")]
                "tick" => {
                    let secs = step["secs"].as_u64().unwrap();
                    let ms = step["ms"].as_u64().unwrap_or(0);
                    planes.verif_backdate(std::time::Duration::from_secs(secs) + std::time::Duration::from_millis(ms));
                    emit(&mut out, &json!({"ev": "tick", "secs": secs, "ms": ms}));
                }
                #[cfg(feature = "std")]
                "prune" => {
                    // thresholds of 2 000 000 000 and more stand for the far end of the range (the trace checker's integers
                    // are 32 bits wide): 2e9 + k means u64::MAX - k
                    let t = step["T"].as_u64().unwrap();
                    let real = if t >= 2_000_000_000 { u64::MAX - (t - 2_000_000_000) } else { t };
                    let r = catch_unwind(AssertUnwindSafe(|| planes.prune(real)));
                    let wall = (t0.elapsed().as_millis() as u64 + 1).min(1_000_000);
                    emit(&mut out, &json!({"ev": "prune", "T": t, "outcome": if r.is_ok() { "ok" } else { "panic" }, "wall_ms": wall,
                                           "planes": project_planes(&planes)}));
                }
                #[cfg(feature = "std")]
                "sleep" => {
                    // real time (used once per thorough run to validate the back-dating hook itself)
                    let ms = step["ms"].as_u64().unwrap();
                    let before = std::time::Instant::now();
                    std::thread::sleep(std::time::Duration::from_millis(ms));
                    t0 += before.elapsed();          // the sleep is accounted for by the tick it counts as
                    emit(&mut out, &json!({"ev": "tick", "secs": step["counts_as"].as_u64().unwrap_or(0), "ms": 0}));
                }
                #[cfg(feature = "std")]
                "serde" => {
                    let r = catch_unwind(AssertUnwindSafe(|| {
                        let s = serde_json::to_string(&planes).map_err(|e| e.to_string())?;
                        serde_json::from_str::<Airplanes>(&s).map_err(|e| e.to_string())
                    }));
                    match r {
                        Ok(Ok(p2)) => {
                            emit(&mut out, &json!({"ev": "serde", "outcome": "ok", "planes": project_planes(&p2)}));
                            planes = p2;
                        }
                        Ok(Err(_)) => emit(&mut out, &json!({"ev": "serde", "outcome": "err", "planes": project_planes(&planes)})),
                        Err(_) => emit(&mut out, &json!({"ev": "serde", "outcome": "panic", "planes": project_planes(&planes)})),
                    }
                }
                _ => {
                    emit(&mut out, &json!({"ev": "skip", "op": op}));
                }
            }
        }
        crate::wd_end();
        emit(&mut out, &json!({"ev": "end", "hist": h["id"], "wall_ms": t0.elapsed().as_millis() as u64}));
        out.flush().unwrap();
    }
    out.flush().unwrap();
}
