//! `hx bits`: the bit-level reads of one decode, as deku's own `logging` feature reports them (one log record per
//! field the derive reads, per read_bits / read_bytes request and per seek).  Output per input frame:
//! {"ev":"bits","bytes":[..],"outcome":..,"ops":[["F","Type.field"],["b",5],["B",1],["s",1],..]}
use std::io::{BufRead, BufWriter, Write};
use std::panic::{catch_unwind, AssertUnwindSafe};
use std::sync::Mutex;

use adsb_deku::Frame;
use serde_json::{json, Value};

static OPS: Mutex<Vec<Value>> = Mutex::new(Vec::new());

struct Capture;

impl log::Log for Capture {
    fn enabled(&self, _: &log::Metadata) -> bool {
        true
    }
    fn log(&self, record: &log::Record) {
        let msg = format!("{}", record.args());
        let num = |s: &str| s.split_whitespace().find_map(|w| w.parse::<i64>().ok()).unwrap_or(-1);
        let op = if let Some(rest) = msg.strip_prefix("Reading: ") {
            json!(["F", rest])
        } else if let Some(rest) = msg.strip_prefix("read_bits: requesting ") {
            json!(["b", num(rest)])
        } else if let Some(rest) = msg.strip_prefix("read_bytes: requesting ") {
            json!(["B", num(rest)])
        } else if let Some(rest) = msg.strip_prefix("read_bytes_const: requesting ") {
            json!(["B", num(rest)])
        } else if let Some(rest) = msg.strip_prefix("skip_bits: ") {
            json!(["p", num(rest)])
        } else if let Some(rest) = msg.strip_prefix("seek: Current(") {
            json!(["s", -num(&rest.replace(')', " ").replace('-', " -"))])
        } else if msg.starts_with("seek: ") {
            json!(["S", msg])
        } else {
            return;
        };
        if let Ok(mut v) = OPS.lock() {
            v.push(op);
        }
    }
    fn flush(&self) {}
}

static LOGGER: Capture = Capture;

pub fn cmd_bits() {
    log::set_logger(&LOGGER).expect("logger");
    log::set_max_level(log::LevelFilter::Trace);
    let stdin = std::io::stdin();
    let stdout = std::io::stdout();
    let mut out = BufWriter::new(stdout.lock());
    for line in stdin.lock().lines() {
        let line = line.unwrap();
        if line.trim().is_empty() {
            continue;
        }
        let v: Value = serde_json::from_str(&line).expect("input json");
        let bytes: Vec<u8> = v["bytes"].as_array().unwrap().iter().map(|x| x.as_u64().unwrap() as u8).collect();
        OPS.lock().unwrap().clear();
        let r = catch_unwind(AssertUnwindSafe(|| Frame::from_bytes(&bytes)));
        let outcome = match r {
            Err(_) => "panic",
            Ok(Err(_)) => "err",
            Ok(Ok(_)) => "ok",
        };
        let ops = std::mem::take(&mut *OPS.lock().unwrap());
        serde_json::to_writer(&mut out, &json!({"ev": "bits", "bytes": bytes, "outcome": outcome, "ops": ops})).unwrap();
        out.write_all(b"\n").unwrap();
    }
    out.flush().unwrap();
}
