//! Projection of decoded frames onto the abstract fields of spec/Frame.tla.
//! Nothing here knows what a correct value is: it only renames what the library returned.
use adsb_deku::adsb::*;
use adsb_deku::bds::BDS;
use adsb_deku::*;
use serde_json::{json, Map, Value};

pub type Obj = Map<String, Value>;

fn put(m: &mut Obj, k: &str, v: impl Into<Value>) {
    m.insert(k.to_string(), v.into());
}

pub fn icao_u32(i: &ICAO) -> u32 {
    (u32::from(i.0[0]) << 16) | (u32::from(i.0[1]) << 8) | u32::from(i.0[2])
}

/// value of `name: <token>` in a Debug rendering (used for the few private fields)
pub fn dbg_field(dbg: &str, name: &str) -> Option<String> {
    let pat = format!("{name}: ");
    let i = dbg.find(&pat)? + pat.len();
    let rest = &dbg[i..];
    let end = rest.find(|c: char| c == ',' || c == ' ' || c == '}' || c == ')').unwrap_or(rest.len());
    Some(rest[..end].to_string())
}

fn dbg_bool(dbg: &str, name: &str) -> i64 {
    match dbg_field(dbg, name).as_deref() {
        Some("true") => 1,
        Some("false") => 0,
        Some(x) => x.parse::<i64>().unwrap_or(-7),
        None => -7,
    }
}


// Enumerations are projected by the *name* of the variant (the API; `Variant { .. }` matches it whether or not it
// carries fields), mapped to the code the standard assigns to
// that name - never by casting the discriminant, which would follow a renumbering of the enum silently.
fn fs_code(f: &FlightStatus) -> i64 {
    match f {
        FlightStatus::NoAlertNoSPIAirborne { .. } => 0,
        FlightStatus::NoAlertNoSPIOnGround { .. } => 1,
        FlightStatus::AlertNoSPIAirborne { .. } => 2,
        FlightStatus::AlertNoSPIOnGround { .. } => 3,
        FlightStatus::AlertSPIAirborneGround { .. } => 4,
        FlightStatus::NoAlertSPIAirborneGround { .. } => 5,
        FlightStatus::Reserved { .. } => 6,
        FlightStatus::NotAssigned { .. } => 7,
        _ => -1, // a variant this projection does not know: equal to no specified value
    }
}
fn ids_code(t: &UtilityMessageType) -> i64 {
    match t {
        UtilityMessageType::NoInformation { .. } => 0,
        UtilityMessageType::CommB { .. } => 1,
        UtilityMessageType::CommC { .. } => 2,
        UtilityMessageType::CommD { .. } => 3,
        _ => -1, // a variant this projection does not know: equal to no specified value
    }
}
fn ss_code(s: &SurveillanceStatus) -> i64 {
    match s {
        SurveillanceStatus::NoCondition { .. } => 0,
        SurveillanceStatus::PermanentAlert { .. } => 1,
        SurveillanceStatus::TemporaryAlert { .. } => 2,
        SurveillanceStatus::SPICondition { .. } => 3,
        _ => -1, // a variant this projection does not know: equal to no specified value
    }
}
pub fn parity_code(f: &CPRFormat) -> i64 {
    match f {
        CPRFormat::Even { .. } => 0,
        CPRFormat::Odd { .. } => 1,
        _ => -1, // a variant this projection does not know: equal to no specified value
    }
}
fn sign_code(s: &Sign) -> i64 {
    match s {
        Sign::Positive { .. } => 0,
        Sign::Negative { .. } => 1,
        _ => -1, // a variant this projection does not know: equal to no specified value
    }
}
fn vrsrc_code(s: &VerticalRateSource) -> i64 {
    match s {
        VerticalRateSource::BarometricPressureAltitude { .. } => 0,
        VerticalRateSource::GeometricAltitude { .. } => 1,
        _ => -1, // a variant this projection does not know: equal to no specified value
    }
}
fn gts_code(s: &StatusForGroundTrack) -> i64 {
    match s {
        StatusForGroundTrack::Invalid { .. } => 0,
        StatusForGroundTrack::Valid { .. } => 1,
        _ => -1, // a variant this projection does not know: equal to no specified value
    }
}
fn es_code(e: &EmergencyState) -> i64 {
    match e {
        EmergencyState::None { .. } => 0,
        EmergencyState::General { .. } => 1,
        EmergencyState::Lifeguard { .. } => 2,
        EmergencyState::MinimumFuel { .. } => 3,
        EmergencyState::NoCommunication { .. } => 4,
        EmergencyState::UnlawfulInterference { .. } => 5,
        EmergencyState::DownedAircraft { .. } => 6,
        EmergencyState::Reserved2 { .. } => 7,
        _ => -1, // a variant this projection does not know: equal to no specified value
    }
}
fn tcl_code(t: &TypeCoding) -> i64 {
    match t {
        TypeCoding::D => 1,
        TypeCoding::C => 2,
        TypeCoding::B => 3,
        TypeCoding::A => 4,
        _ => -1, // a variant this projection does not know: equal to no specified value
    }
}
fn ver_code(v: &ADSBVersion) -> i64 {
    match v {
        ADSBVersion::DOC9871AppendixA { .. } => 0,
        ADSBVersion::DOC9871AppendixB { .. } => 1,
        ADSBVersion::DOC9871AppendixC { .. } => 2,
        _ => -1, // a variant this projection does not know: equal to no specified value
    }
}

fn cap(c: &Capability) -> i64 {
    match c {
        Capability::AG_UNCERTAIN { .. } => 0,
        Capability::Reserved(v) => i64::from(*v),
        Capability::AG_GROUND { .. } => 4,
        Capability::AG_AIRBORNE { .. } => 5,
        Capability::AG_UNCERTAIN2 { .. } => 6,
        Capability::AG_UNCERTAIN3 { .. } => 7,
        _ => -1, // a variant this projection does not know: equal to no specified value
    }
}

fn dr(d: &DownlinkRequest) -> i64 {
    match d {
        DownlinkRequest::None { .. } => 0,
        DownlinkRequest::RequestSendCommB { .. } => 1,
        DownlinkRequest::CommBBroadcastMsg1 { .. } => 4,
        DownlinkRequest::CommBBroadcastMsg2 { .. } => 5,
        DownlinkRequest::Unknown(v) => i64::from(*v),
        _ => -1, // a variant this projection does not know: equal to no specified value
    }
}

fn surv(m: &mut Obj, fs: &FlightStatus, d: &DownlinkRequest, um: &UtilityMessage) {
    put(m, "fs", fs_code(fs));
    put(m, "dr", dr(d));
    put(m, "iis", i64::from(um.iis));
    put(m, "ids", ids_code(&um.ids));
}

fn chars(s: &str) -> Value {
    Value::Array(s.chars().map(|c| json!(c as u32)).collect())
}

fn cf_type(cf: &ControlField) -> i64 {
    let d = format!("{cf:?}");
    match dbg_field(&d, "t").as_deref() {
        Some("ADSB_ES_NT") => 0,
        Some("ADSB_ES_NT_ALT") => 1,
        Some("TISB_FINE") => 2,
        Some("TISB_COARSE") => 3,
        Some("TISB_MANAGE") => 4,
        Some("TISB_ADSB_RELAY") => 5,
        Some("TISB_ADSB") => 6,
        Some("Reserved") => 7,
        _ => -7,
    }
}

fn position(m: &mut Obj, a: &Altitude) {
    put(m, "tc", i64::from(a.tc));
    put(m, "ss", ss_code(&a.ss));
    put(m, "saf", i64::from(a.saf_or_imf));
    put(m, "alt", a.alt.map_or(-1, i64::from));
    put(m, "t", i64::from(a.t));
    put(m, "f", parity_code(&a.odd_flag));
    put(m, "lat", i64::from(a.lat_cpr));
    put(m, "lon", i64::from(a.lon_cpr));
}

fn opmode(m: &mut Obj, om: &OperationalMode) {
    let d = format!("{om:?}");
    put(m, "ra", dbg_bool(&d, "tcas_ra_active"));
    put(m, "ident", dbg_bool(&d, "ident_switch_active"));
    put(m, "atc", dbg_bool(&d, "reserved_recv_atc_service"));
    put(m, "omsaf", dbg_bool(&d, "single_antenna_flag"));
    put(m, "sda", dbg_bool(&d, "system_design_assurance"));
}

pub fn velocity(m: &mut Obj, v: &AirborneVelocity) {
    put(m, "vst", i64::from(v.st));
    put(m, "vnac5", i64::from(v.nac_v));
    put(m, "vrsrc", vrsrc_code(&v.vrate_src));
    put(m, "vrsign", sign_code(&v.vrate_sign));
    put(m, "vr", i64::from(v.vrate_value));
    put(m, "difsign", sign_code(&v.gnss_sign));
    put(m, "dif", i64::from(v.gnss_baro_diff));
    match &v.sub_type {
        AirborneVelocitySubType::GroundSpeedDecoding(g) => {
            put(m, "dew", sign_code(&g.ew_sign));
            put(m, "vew", i64::from(g.ew_vel));
            put(m, "dns", sign_code(&g.ns_sign));
            put(m, "vns", i64::from(g.ns_vel));
        }
        AirborneVelocitySubType::AirspeedDecoding(a) => {
            put(m, "hst", i64::from(a.status_heading));
            put(m, "hdg", i64::from(a.mag_heading));
            put(m, "ast", i64::from(a.airspeed_type));
            put(m, "as", i64::from(a.airspeed));
        }
        AirborneVelocitySubType::Reserved0(r) => {
            put(m, "vraw22", i64::from(*r));
            put(m, "vrk", 0);
        }
        AirborneVelocitySubType::Reserved1(r) => {
            put(m, "vraw22", i64::from(*r));
            put(m, "vrk", 1);
        }
        _ => put(m, "vst", -1),
    }
}

fn me(m: &mut Obj, me: &ME) {
    match me {
        ME::NoPosition(r) => {
            put(m, "mek", 0);
            m.insert("raw".into(), Value::Array(r.iter().map(|x| Value::from(i64::from(*x))).collect()));
        }
        ME::AircraftIdentification(i) => {
            put(m, "mek", 1);
            put(m, "tcl", tcl_code(&i.tc));
            put(m, "cat", i64::from(i.ca));
            m.insert("cs".into(), chars(&i.cn));
        }
        ME::SurfacePosition(s) => {
            put(m, "mek", 2);
            put(m, "mov", i64::from(s.mov));
            put(m, "gts", gts_code(&s.s));
            put(m, "trk", i64::from(s.trk));
            put(m, "t", i64::from(s.t));
            put(m, "f", parity_code(&s.f));
            put(m, "lat", i64::from(s.lat_cpr));
            put(m, "lon", i64::from(s.lon_cpr));
        }
        ME::AirbornePositionBaroAltitude(a) => {
            put(m, "mek", 3);
            position(m, a);
        }
        ME::AirborneVelocity(v) => {
            put(m, "mek", 4);
            velocity(m, v);
        }
        ME::AirbornePositionGNSSAltitude(a) => {
            put(m, "mek", 5);
            position(m, a);
        }
        ME::Reserved0(r) => {
            put(m, "mek", 6);
            m.insert("raw".into(), Value::Array(r.iter().map(|x| Value::from(i64::from(*x))).collect()));
        }
        ME::SurfaceSystemStatus(r) => {
            put(m, "mek", 7);
            m.insert("raw".into(), Value::Array(r.iter().map(|x| Value::from(i64::from(*x))).collect()));
        }
        ME::Reserved1(r) => {
            put(m, "mek", 8);
            m.insert("raw".into(), Value::Array(r.iter().map(|x| Value::from(i64::from(*x))).collect()));
        }
        ME::AircraftStatus(s) => {
            put(m, "mek", 9);
            put(
                m,
                "st28",
                match s.sub_type {
                    AircraftStatusType::NoInformation { .. } => 0,
                    AircraftStatusType::EmergencyPriorityStatus { .. } => 1,
                    AircraftStatusType::ACASRaBroadcast { .. } => 2,
                    AircraftStatusType::Reserved { .. } => 3,
                },
            );
            put(m, "es", es_code(&s.emergency_state));
            put(m, "id", i64::from(s.squawk));
        }
        ME::TargetStateAndStatusInformation(t) => {
            put(m, "mek", 10);
            put(m, "sub29", i64::from(t.subtype));
            put(m, "alttype", i64::from(t.is_fms));
            put(m, "selalt", i64::from(t.altitude));
            put(m, "qnh10", scaled(f64::from(t.qnh), 10.0));
            put(m, "hdgst", i64::from(t.is_heading));
            put(m, "hdgmd", scaled(f64::from(t.heading), 1e6));
            put(m, "nacp", i64::from(t.nacp));
            put(m, "nicbaro", i64::from(t.nicbaro));
            put(m, "sil", i64::from(t.sil));
            put(m, "modest", i64::from(t.mode_validity));
            put(m, "ap29", i64::from(t.autopilot));
            put(m, "vnav", i64::from(t.vnac));
            put(m, "althold", i64::from(t.alt_hold));
            put(m, "adsr", i64::from(t.imf));
            put(m, "appr", i64::from(t.approach));
            put(m, "tcas", i64::from(t.tcas));
            put(m, "lnav", i64::from(t.lnav));
        }
        ME::AircraftOperationalCoordination(r) => {
            put(m, "mek", 11);
            m.insert("raw".into(), Value::Array(r.iter().map(|x| Value::from(i64::from(*x))).collect()));
        }
        ME::AircraftOperationStatus(OperationStatus::Airborne(a)) => {
            put(m, "mek", 12);
            opmode(m, &a.operational_mode);
            let c = &a.capability_class;
            put(m, "acas", i64::from(c.acas));
            put(m, "cdti", i64::from(c.cdti));
            put(m, "arv", i64::from(c.arv));
            put(m, "ts", i64::from(c.ts));
            put(m, "cctc", i64::from(c.tc));
            put(m, "ver", ver_code(&a.version_number));
            put(m, "nica", i64::from(a.nic_supplement_a));
            put(m, "nacp", i64::from(a.navigational_accuracy_category));
            put(m, "gva", i64::from(a.geometric_vertical_accuracy));
            put(m, "sil", i64::from(a.source_integrity_level));
            put(m, "nicbaro", i64::from(a.barometric_altitude_integrity));
            put(m, "hrd", i64::from(a.horizontal_reference_direction));
            put(m, "silsup", i64::from(a.sil_supplement));
        }
        ME::AircraftOperationStatus(OperationStatus::Surface(s)) => {
            put(m, "mek", 13);
            opmode(m, &s.operational_mode);
            let c = &s.capability_class;
            put(m, "poa", i64::from(c.poe));
            put(m, "es1090", i64::from(c.es1090));
            put(m, "b2low", i64::from(c.b2_low));
            put(m, "uatin", i64::from(c.uat_in));
            put(m, "nacv", i64::from(c.nac_v));
            put(m, "nicc", i64::from(c.nic_supplement_c));
            put(m, "lw", i64::from(s.lw_codes));
            put(m, "gps", i64::from(s.gps_antenna_offset));
            put(m, "ver", ver_code(&s.version_number));
            put(m, "nica", i64::from(s.nic_supplement_a));
            put(m, "nacp", i64::from(s.navigational_accuracy_category));
            put(m, "sil", i64::from(s.source_integrity_level));
            put(m, "trkhdg", i64::from(s.barometric_altitude_integrity));
            put(m, "hrd", i64::from(s.horizontal_reference_direction));
            put(m, "silsup", i64::from(s.sil_supplement));
        }
        ME::AircraftOperationStatus(OperationStatus::Reserved(a, r)) => {
            put(m, "mek", 14);
            put(m, "rsv5", i64::from(*a));
            m.insert("raw".into(), Value::Array(r.iter().map(|x| Value::from(i64::from(*x))).collect()));
        }
        _ => put(m, "mek", -1), // a payload variant this projection does not know
    }
}

/// round-to-nearest scaled integer; non-finite or out-of-range values become a sentinel that no
/// specification value equals
pub fn scaled(x: f64, k: f64) -> i64 {
    let v = (x * k).round();
    if !v.is_finite() || v.abs() >= 2_147_483_000.0 {
        -2_147_483_647
    } else {
        v as i64
    }
}

fn bds(m: &mut Obj, b: &BDS) {
    match b {
        BDS::Empty(r) => {
            put(m, "bdsk", 0);
            m.insert("raw".into(), Value::Array(r.iter().map(|x| Value::from(i64::from(*x))).collect()));
        }
        BDS::DataLinkCapability(d) => {
            put(m, "bdsk", 1);
            put(m, "cont", i64::from(d.continuation_flag));
            put(m, "ovc", i64::from(d.overlay_command_capability));
            put(m, "dlacas", i64::from(d.acas));
            put(m, "subnet", i64::from(d.mode_s_subnetwork_version_number));
            put(m, "enh", i64::from(d.transponder_enhanced_protocol_indicator));
            put(m, "spec", i64::from(d.mode_s_specific_services_capability));
            put(m, "uelm", i64::from(d.uplink_elm_average_throughput_capability));
            put(m, "delm", i64::from(d.downlink_elm));
            put(m, "idcap", i64::from(d.aircraft_identification_capability));
            put(m, "sqcap", i64::from(d.squitter_capability_subfield));
            put(m, "sic", i64::from(d.surveillance_identifier_code));
            put(m, "gicb", i64::from(d.common_usage_gicb_capability_report));
            put(m, "acasbits", i64::from(d.reserved_acas));
            put(m, "dte", i64::from(d.bit_array));
        }
        BDS::AircraftIdentification(s) => {
            put(m, "bdsk", 2);
            m.insert("cs".into(), chars(s));
        }
        BDS::Unknown((id, r)) => {
            put(m, "bdsk", 3);
            put(m, "bdsid", i64::from(*id));
            m.insert("raw".into(), Value::Array(r.iter().map(|x| Value::from(i64::from(*x))).collect()));
        }
        _ => put(m, "bdsk", -1),
    }
}

pub fn frame(f: &Frame) -> Obj {
    let mut m = Obj::new();
    put(&mut m, "ok", 1);
    put(&mut m, "crc", i64::from(f.crc));
    match &f.df {
        DF::ShortAirAirSurveillance { vs, cc, sl, ri, altitude, parity, .. } => {
            put(&mut m, "df", 0);
            put(&mut m, "vs", i64::from(*vs));
            put(&mut m, "cc", i64::from(*cc));
            put(&mut m, "sl", i64::from(*sl));
            put(&mut m, "ri", i64::from(*ri));
            put(&mut m, "ac", i64::from(altitude.0));
            put(&mut m, "ap", i64::from(icao_u32(parity)));
        }
        DF::SurveillanceAltitudeReply { fs, dr, um, ac, ap, .. } => {
            put(&mut m, "df", 4);
            surv(&mut m, fs, dr, um);
            put(&mut m, "ac", i64::from(ac.0));
            put(&mut m, "ap", i64::from(icao_u32(ap)));
        }
        DF::SurveillanceIdentityReply { fs, dr, um, id, ap, .. } => {
            put(&mut m, "df", 5);
            surv(&mut m, fs, dr, um);
            put(&mut m, "id", i64::from(id.0));
            put(&mut m, "ap", i64::from(icao_u32(ap)));
        }
        DF::AllCallReply { capability, icao, p_icao, .. } => {
            put(&mut m, "df", 11);
            put(&mut m, "ca", cap(capability));
            put(&mut m, "aa", i64::from(icao_u32(icao)));
            put(&mut m, "pi", i64::from(icao_u32(p_icao)));
        }
        DF::LongAirAir { vs, sl, ri, altitude, mv, parity, .. } => {
            put(&mut m, "df", 16);
            put(&mut m, "vs", i64::from(*vs));
            put(&mut m, "sl", i64::from(*sl));
            put(&mut m, "ri", i64::from(*ri));
            put(&mut m, "ac", i64::from(altitude.0));
            m.insert("mv".into(), Value::Array(mv.iter().map(|b| json!(*b)).collect()));
            put(&mut m, "ap", i64::from(icao_u32(parity)));
        }
        DF::ADSB(a) => {
            put(&mut m, "df", 17);
            put(&mut m, "ca", cap(&a.capability));
            put(&mut m, "aa", i64::from(icao_u32(&a.icao)));
            put(&mut m, "pi", i64::from(icao_u32(&a.pi)));
            me(&mut m, &a.me);
        }
        DF::TisB { cf, pi, .. } => {
            put(&mut m, "df", 18);
            put(&mut m, "cf", cf_type(cf));
            put(&mut m, "aa", i64::from(icao_u32(&cf.aa)));
            put(&mut m, "pi", i64::from(icao_u32(pi)));
            me(&mut m, &cf.me);
        }
        DF::ExtendedQuitterMilitaryApplication { af, .. } => {
            put(&mut m, "df", 19);
            put(&mut m, "af", i64::from(*af));
        }
        DF::CommBAltitudeReply { flight_status, dr, um, alt, bds: b, .. } => {
            put(&mut m, "df", 20);
            surv(&mut m, flight_status, dr, um);
            put(&mut m, "ac", i64::from(alt.0));
            bds(&mut m, b);
        }
        DF::CommBIdentityReply { fs, dr, um, id, bds: b, parity, .. } => {
            put(&mut m, "df", 21);
            surv(&mut m, fs, dr, um);
            put(&mut m, "id", i64::from(*id));
            bds(&mut m, b);
            put(&mut m, "ap", i64::from(icao_u32(parity)));
        }
        DF::ModeSExtendedSquitter { df, capability, icao, type_code, adsb_data, parity, .. } => {
            put(&mut m, "df", i64::from(*df));
            put(&mut m, "ca", cap(capability));
            put(&mut m, "aa", i64::from(icao_u32(icao)));
            put(&mut m, "tc", i64::from(*type_code));
            put(&mut m, "dhi", (*adsb_data >> 31) as i64);
            put(&mut m, "dlo", (*adsb_data & 0x7fff_ffff) as i64);
            put(&mut m, "pi", i64::from(icao_u32(parity)));
        }
        _ => put(&mut m, "df", -1),
    }
    m
}
